"""Minimal stand-in for typing_extensions, used only where the real package is absent.

code_data imports exactly one name from it (Literal, for a type alias).  This file is
appended at the END of sys.path by the harness so a real installation always wins.
"""
try:
    from typing import Literal  # 3.8+
except ImportError:  # 3.7
    class _LiteralPlaceholder(object):
        def __getitem__(self, item):
            return str

    Literal = _LiteralPlaceholder()
