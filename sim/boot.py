"""Worker-side bootstrap: put the scratch copy of /repo's working tree on sys.path, add the
typing_extensions shim only if the real package is missing, and pre-import every code_data
sub-module (lazy imports inside the API would otherwise change line-event counts between
the first and later traced calls, and a caller pre-empted while holding the import lock
would deadlock the baton holder).  Runs on 3.7+.
"""
import os
import sys

VERIF_DIR = os.path.dirname(os.path.dirname(os.path.abspath(__file__)))
TREE = None
USING_SHIM = False


def setup(tree=None):
    global TREE, USING_SHIM
    tree = tree or os.environ.get("VERIF_TREE")
    if not tree:
        raise RuntimeError("VERIF_TREE not set")
    TREE = os.path.realpath(tree)
    # drop anything that could shadow the scratch tree (e.g. an editable install of /repo)
    sys.path[:] = [p for p in sys.path if os.path.realpath(p or ".") != "/repo"]
    if TREE not in sys.path:
        sys.path.insert(0, TREE)
    if VERIF_DIR not in sys.path:
        sys.path.append(VERIF_DIR)
    try:
        import typing_extensions  # noqa: F401
    except ImportError:
        sys.path.append(os.path.join(VERIF_DIR, "shims"))
        USING_SHIM = True
    import code_data

    got = os.path.realpath(os.path.dirname(os.path.dirname(code_data.__file__)))
    if got != TREE:
        raise RuntimeError("code_data imported from %s, expected %s" % (got, TREE))
    return code_data


def preimport(full=True):
    """Import all implementation modules and make one throw-away call of each API function."""
    import code_data
    import code_data._args  # noqa: F401
    import code_data._blocks  # noqa: F401
    import code_data._code_data  # noqa: F401
    import code_data._constants  # noqa: F401
    import code_data._flags_data  # noqa: F401
    import code_data._json_data  # noqa: F401
    import code_data._line_mapping  # noqa: F401
    import code_data._normalize  # noqa: F401

    if full and sys.version_info < (3, 11):
        src = "def _w(a, *b, c=1, **d):\n    'doc'\n    return [x for x in a if x in {1, 2.5}]\n"
        c = compile(src, "<warm>", "exec")
        d = code_data.CodeData.from_code(c)
        d.to_code()
        n = d.normalize()
        n.to_code()
        import copy
        import json

        j = d.to_json_data()
        code_data.CodeData.from_json_data(copy.deepcopy(j))
        code_data.CodeData.from_json_data(json.loads(json.dumps(j)))
        hash(d)
        repr(d)
        d == n
    return code_data


def is_code_data_file(filename):
    return TREE is not None and filename.startswith(TREE + os.sep + "code_data" + os.sep)
