"""Independent bytecode reader/writer, serialization-artefact perturbations (F5) and the
validity gate that lets a perturbed code object into a run only if CPython itself reads it as
the same program.  Runs on 3.7 .. 3.10.  Nothing here imports code_data.
"""
import dis
import opcode
import sys
import types

from . import fp
from .world import replace_code

V310 = sys.version_info >= (3, 10)
EXT = dis.EXTENDED_ARG
HAVE_ARG = opcode.HAVE_ARGUMENT
HASJABS = set(dis.hasjabs)
HASJREL = set(dis.hasjrel)
HASNAME = set(dis.hasname)
HASLOCAL = set(dis.haslocal)
HASFREE = set(dis.hasfree)
HASCONST = set(dis.hasconst)
CO_NESTED = 0x10
CO_NOFREE = 0x40
CO_VARARGS = 0x04
CO_VARKEYWORDS = 0x08
FN_FLAGS = 0x03


def parse(code_bytes):
    """[[start, op, arg, units], ...] with EXTENDED_ARG prefixes folded into the instruction."""
    out = []
    ext = 0
    start = None
    units = 0
    for i in range(0, len(code_bytes), 2):
        op = code_bytes[i]
        a = code_bytes[i + 1]
        if start is None:
            start = i
        units += 1
        if op == EXT:
            ext = (ext | a) << 8
        else:
            out.append([start, op, ext | a, units])
            ext = 0
            start = None
            units = 0
    return out


def fits(arg, units):
    return 0 <= arg < (1 << (8 * units))


def emit(ins):
    b = bytearray()
    for start, op, arg, units in ins:
        for k in range(units - 1, -1, -1):
            b.append(EXT if k else op)
            b.append((arg >> (8 * k)) & 0xFF)
    return bytes(b)


def nparams(c):
    n = c.co_argcount + c.co_kwonlyargcount
    if c.co_flags & CO_VARARGS:
        n += 1
    if c.co_flags & CO_VARKEYWORDS:
        n += 1
    return n


# ---------------------------------------------------------------------------------------
# CPython's own reading (the gate)
# ---------------------------------------------------------------------------------------

def line_of_offsets(c):
    """offset -> line according to CPython (co_lines on 3.10, findlinestarts before)."""
    n = len(c.co_code)
    out = {}
    if hasattr(c, "co_lines"):
        for s, e, ln in c.co_lines():
            for o in range(s, min(e, n), 2):
                out[o] = ln
        return out
    starts = list(dis.findlinestarts(c))
    cur = None
    j = 0
    for o in range(0, n, 2):
        while j < len(starts) and starts[j][0] <= o:
            cur = starts[j][1]
            j += 1
        out[o] = cur
    return out


def symbolic(c):
    """CPython's reading of one code object: (header, [(opname, operand, line), ...], [nested]).

    Table positions, operand widths and unreferenced table entries do not appear."""
    ins = list(dis.get_instructions(c))
    lines = line_of_offsets(c)
    # instruction index by offset; an EXTENDED_ARG prefix belongs to the instruction that follows
    index_of = {}
    real = []
    pending = []
    for i in ins:
        if i.opcode == EXT:
            pending.append(i.offset)
            continue
        idx = len(real)
        for o in pending:
            index_of[o] = idx
        index_of[i.offset] = idx
        first = pending[0] if pending else i.offset
        pending = []
        real.append((i, first))
    index_of[len(c.co_code)] = len(real)
    stream = []
    nested = []
    ncell = len(c.co_cellvars)
    for i, first in real:
        op = i.opcode
        if op in HASJABS or op in HASJREL:
            operand = ("jump", index_of.get(i.argval, ("bad-target", i.argval)), op in HASJREL)
        elif op in HASCONST:
            if isinstance(i.argval, types.CodeType):
                nested.append(i.argval)
                operand = ("code", len(nested) - 1)
            else:
                operand = ("const", fp.const_fp(i.argval))
        elif op in HASNAME:
            operand = ("name", i.argval)
        elif op in HASLOCAL:
            operand = ("local", i.argval)
        elif op in HASFREE:
            operand = ("cell" if i.arg < ncell else "free", i.argval)
        elif op < HAVE_ARG:
            operand = None
        else:
            operand = ("raw", i.arg)
        stream.append((i.opname, operand, lines.get(first)))
    np_ = nparams(c)
    header = (
        c.co_argcount, getattr(c, "co_posonlyargcount", 0), c.co_kwonlyargcount,
        c.co_flags & ~(CO_NESTED | CO_NOFREE), c.co_freevars, c.co_name, c.co_filename, c.co_firstlineno,
        c.co_stacksize, tuple(c.co_varnames[:np_]),
    )
    return header, stream, nested


def same_program(a, b):
    """True iff CPython reads both code objects as the same program (recursively)."""
    try:
        ha, sa, na = symbolic(a)
        hb, sb, nb = symbolic(b)
    except Exception:
        return False
    if ha != hb or sa != sb or len(na) != len(nb):
        return False
    for x, y in zip(na, nb):
        if not same_program(x, y):
            return False
    return True


# ---------------------------------------------------------------------------------------
# perturbations (serialization artefacts only)
# ---------------------------------------------------------------------------------------

KINDS = ["names", "consts", "varnames", "cellvars", "append", "nested_flag", "noarg", "extarg"]


def _perm_in_classes(rng, n, fixed=0):
    """Permutation of range(n) keeping [0, fixed) in place and never moving an index across
    a byte-width class boundary (256, 65536), so every renumbered operand keeps its width."""
    perm = list(range(n))
    for lo, hi in ((fixed, min(n, 256)), (max(fixed, 256), min(n, 65536))):
        if hi - lo >= 2:
            seg = list(range(lo, hi))
            rng.shuffle(seg)
            for i, v in zip(range(lo, hi), seg):
                perm[i] = v
    return perm  # new_table[perm[i]] = old_table[i]


def _apply_table_perm(table, perm):
    new = [None] * len(table)
    for i, v in enumerate(table):
        new[perm[i]] = v
    return tuple(new)


def _renumber(ins, opset, perm, limit=None):
    moved = 0
    for x in ins:
        if x[1] in opset and (limit is None or x[2] < limit):
            if x[2] >= len(perm):
                return None
            new = perm[x[2]]
            if not fits(new, x[3]):
                return None
            if new != x[2]:
                moved += 1
            x[2] = new
    return moved


def perturb_once(c, kind, rng, stats):
    ins = parse(c.co_code)
    if kind == "names":
        if len(c.co_names) < 2:
            return None
        perm = _perm_in_classes(rng, len(c.co_names))
        if _renumber(ins, HASNAME, perm) is None:
            return None
        stats["movable_ge2"] = stats.get("movable_ge2", 0) + 1
        return replace_code(c, co_code=emit(ins), co_names=_apply_table_perm(c.co_names, perm))
    if kind == "consts":
        fixed = 1 if (c.co_flags & FN_FLAGS) == FN_FLAGS else 0
        if len(c.co_consts) - fixed < 2:
            return None
        perm = _perm_in_classes(rng, len(c.co_consts), fixed)
        if _renumber(ins, HASCONST, perm) is None:
            return None
        stats["movable_ge2"] = stats.get("movable_ge2", 0) + 1
        return replace_code(c, co_code=emit(ins), co_consts=_apply_table_perm(c.co_consts, perm))
    if kind == "varnames":
        fixed = nparams(c)
        if len(c.co_varnames) - fixed < 2:
            return None
        perm = _perm_in_classes(rng, len(c.co_varnames), fixed)
        if _renumber(ins, HASLOCAL, perm) is None:
            return None
        stats["movable_ge2"] = stats.get("movable_ge2", 0) + 1
        return replace_code(c, co_code=emit(ins), co_varnames=_apply_table_perm(c.co_varnames, perm))
    if kind == "cellvars":
        n = len(c.co_cellvars)
        if n < 2:
            return None
        perm = _perm_in_classes(rng, n)
        if _renumber(ins, HASFREE, perm, limit=n) is None:
            return None
        stats["movable_ge2"] = stats.get("movable_ge2", 0) + 1
        return replace_code(c, co_code=emit(ins), co_cellvars=_apply_table_perm(c.co_cellvars, perm))
    if kind == "append":
        which = rng.choice(["names", "consts", "varnames", "cellvars", "consts", "names"])
        k = rng.randint(1, 3)
        if which == "names":
            return replace_code(c, co_names=c.co_names + tuple("zz_unused_%d" % i for i in range(k)))
        if which == "consts":
            extra = [rng.choice([None, 12345, 1.5, b"zz", ("zz", 1), -0.0, "zz_unused"]) for _ in range(k)]
            if (c.co_flags & FN_FLAGS) == FN_FLAGS and not c.co_consts and isinstance(extra[0], str):
                extra[0] = None  # never create a docstring
            return replace_code(c, co_consts=c.co_consts + tuple(extra))
        if which == "varnames":
            if (c.co_flags & FN_FLAGS) != FN_FLAGS:
                return None  # module/class code has no fast locals
            new = c.co_varnames + tuple("zz_local_%d" % i for i in range(k))
            return replace_code(c, co_varnames=new, co_nlocals=len(new))
        # an unused cell variable: every free-variable operand moves up by k
        n = len(c.co_cellvars)
        for x in ins:
            if x[1] in HASFREE and x[2] >= n:
                if not fits(x[2] + k, x[3]):
                    return None
                x[2] += k
        return replace_code(c, co_code=emit(ins), co_cellvars=c.co_cellvars + tuple("zz_cell_%d" % i for i in range(k)))
    if kind == "nested_flag":
        return replace_code(c, co_flags=c.co_flags ^ CO_NESTED)
    if kind == "noarg":
        cands = [x for x in ins if x[1] < HAVE_ARG and x[3] == 1]
        if not cands:
            return None
        for x in rng.sample(cands, min(len(cands), rng.randint(1, 3))):
            x[2] = rng.randint(1, 255)
        return replace_code(c, co_code=emit(ins))
    if kind == "extarg":
        return insert_extended_arg(c, ins, rng)
    return None


def insert_extended_arg(c, ins, rng, only_jumps=False, max_units=3, prefer_noline=False):
    """Put a redundant `EXTENDED_ARG 0` in front of one instruction, fixing jumps and the line table."""
    cands = [i for i, x in enumerate(ins) if x[3] < max_units and x[1] >= HAVE_ARG and (not only_jumps or x[1] in HASJABS or x[1] in HASJREL)]
    if not cands:
        return None
    if prefer_noline and V310:
        # instructions inside a "no line" range of the 3.10 line table (artificial jumps back to a loop header):
        # their JSON form has no line_number, so an override is the only optional key they carry
        noline, pos = [], 0
        ltab = c.co_linetable
        for i in range(0, len(ltab) - 1, 2):
            if ltab[i + 1] == 0x80:
                noline.append((pos, pos + ltab[i]))
            pos += ltab[i]
        pref = [i for i in cands if any(a <= ins[i][0] < b for a, b in noline)]
        if pref and rng.chance(0.7):
            cands = pref
    k = rng.choice(cands)
    o = ins[k][0]  # insertion offset: every later offset moves by 2
    unit = 2 if V310 else 1  # jump operands count instructions on 3.10, bytes before

    def moved(off):
        return off + 2 if off > o else off

    for x in ins:
        start, op, arg, units = x
        end = start + 2 * units
        if op in HASJABS:
            tgt = arg * unit
            x[2] = moved(tgt) // unit
        elif op in HASJREL:
            tgt = end + arg * unit
            new_end = moved(end) if start != o else end + 2
            # the instruction that receives the prefix keeps its end-relative operand
            if start == o:
                new_tgt = tgt + 2
            else:
                new_tgt = moved(tgt)
            x[2] = (new_tgt - new_end) // unit
        if not fits(x[2], x[3]):
            return None
    ins[k][3] += 1
    new_code = emit(ins)
    # line table: the region containing offset o grows by 2 bytes
    if V310:
        lt = bytearray(c.co_linetable)
        pos = 0
        done = False
        for i in range(0, len(lt), 2):
            if pos <= o < pos + lt[i] or (lt[i] == 0 and False):
                if lt[i] + 2 > 254:
                    return None
                lt[i] += 2
                done = True
                break
            pos += lt[i]
        if not done:
            return None
        return replace_code(c, co_code=new_code, co_linetable=bytes(lt))
    ln = bytearray(c.co_lnotab)
    pos = 0
    for i in range(0, len(ln), 2):
        pos += ln[i]
        if pos > o:
            if ln[i] + 2 > 255:
                return None
            ln[i] += 2
            break
    return replace_code(c, co_code=new_code, co_lnotab=bytes(ln))


def perturb(c, rng, kinds, stats, depth=0):
    """Apply up to 4 seeded perturbations to c and, with independent seeds, to nested code."""
    cur = c
    # nested first (their identity inside co_consts changes)
    if depth < 4:
        consts = list(cur.co_consts)
        changed = False
        for i, k in enumerate(consts):
            if isinstance(k, types.CodeType) and rng.chance(0.7):
                sub = perturb(k, rng.fork("nested", i), kinds, stats, depth + 1)
                if sub is not k:
                    consts[i] = sub
                    changed = True
                    stats["touched_nested"] = stats.get("touched_nested", 0) + 1
        if changed:
            cur = replace_code(cur, co_consts=tuple(consts))
    for _ in range(rng.randint(1, 4)):
        kind = rng.choice(kinds)
        try:
            new = perturb_once(cur, kind, rng, stats)
        except (ValueError, OverflowError, TypeError):
            new = None
        if new is None:
            stats["skip_" + kind] = stats.get("skip_" + kind, 0) + 1
            continue
        # gate each single step so that a failing kind is discarded alone
        if not same_program(cur, new):
            stats["gate_discard_" + kind] = stats.get("gate_discard_" + kind, 0) + 1
            continue
        stats["applied_" + kind] = stats.get("applied_" + kind, 0) + 1
        cur = new
    return cur
