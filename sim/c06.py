"""C06 on engine A: normalization yields a canonical form, whatever the operation history.

A run fixes a lineage: program -> c0 -> d0 = from_code(c0) -> N0 = normalize(d0).  The state
is always a normalized value.  Steps (seeded order and mix): normalize again (idempotence),
code round trip, JSON round trip with seeded dumps options and a benign transit shuffle of
key order / frozenset listings, and the same trips with a serialization-artefact perturbation
(F5) of the code object in transit -- also applied to c0 itself before the first decode.
Invariant after every normalize: result == N0 (library ==, as the property says "equal
CodeData").  A strict-only difference is counted, never raised.
"""
import copy
import json

from . import bytecode, fp, prng, sched, workload
from .engine_a import FILENAMES, compile_op, zoo_expr
from .world import World, api_call, norm_loc, pristine_call, snap


class World06(World):
    PROP = "C06"

    def __init__(self, tree, known=None, tier="quick"):
        World.__init__(self, tree, known, tier)
        self.N0 = {}  # lineage -> normalized data (first)
        self.N0_route = {}
        self.pstats = {}
        self.trips = 0

    # no C12 bookkeeping here: only C06's own invariant
    def after_api(self, op, name, arg, outcome, ofp, mode):
        if outcome[0] != "ok":
            self.count("api_raise_" + name)
            if name in ("from_code", "from_json_data", "to_code", "normalize", "to_json_data") and op.get("expect_ok", True):
                # the same pipeline succeeded on the unperturbed lineage: a raise is a divergence
                if outcome[1] == "CallDidNotReturn":
                    self.violate("N2-trip-does-not-return", name, "route=" + route_sig(arg.route + [name]), {"route": arg.route})
                elif "perturb" in route_sig(arg.route + [name]).split(">"):
                    # a hand-perturbed object may be refused (C11 allows from_code to raise): inconclusive
                    self.count("perturbed_trip_raised_inconclusive")
                elif arg.lineage in self.N0:
                    self.violate("N2-trip-raises", name, "route=" + route_sig(arg.route + [name]), {"exc": outcome[1:], "route": arg.route})
            return None
        value = outcome[1]
        kind = {"from_code": "data", "to_code": "code", "normalize": "data", "to_json_data": "doc", "from_json_data": "data"}[name]
        r = self.add_slot(op, kind, value, arg.lineage, arg.route + [name], snapshot=self._result_snap, parent=arg)
        r.normalized = name == "normalize"
        if name == "normalize":
            if op.get("ref"):
                # N3: a canonical form cannot depend on what else this process normalized before:
                # a pristine copy of the library must produce the same normal form for an equal argument
                ref = pristine_call("normalize", arg.value)
                self.count("pristine_reference_checked")
                same = ref[0] == "ok" and fp.data_fp(ref[1]) == r.snap
                self.event("pristine", same)
                if not same:
                    loc = (fp.diff_path(fp.data_fp(ref[1]), r.snap) or "?") if ref[0] == "ok" else "pristine-raises:" + ref[1]
                    self.violate("N3-normal-form-depends-on-process-history", "normalize", norm_loc(loc), {"route": r.route})
                    return r
            self.check_canonical(r, arg)
        return r

    def check_canonical(self, r, arg):
        lin = r.lineage
        if lin not in self.N0:
            self.N0[lin] = r
            self.N0_route[lin] = list(r.route)
            self.event("N0", fp.digest(r.snap))
            return
        n0 = self.N0[lin]
        self.count("canonical_checked")
        eq = sched._outcome(lambda: (r.value == n0.value) and (n0.value == r.value))
        if eq[0] != "ok":
            self.violate("N1-eq-raises", "normalize", route_sig(r.route), {"exc": eq[1:]})
            return
        strict = r.snap == n0.snap
        if arg.normalized:
            self.count("idempotence_checked")
        if not eq[1]:
            loc = fp.diff_path(n0.snap, r.snap) or "?"
            inv = "N1-idempotence" if arg.normalized else "N1-not-canonical"
            self.violate(inv, "normalize", "%s@%s" % (route_sig(r.route), norm_loc(loc)), {"route": r.route, "diff": loc})
        elif not strict:
            self.count("strict_only_difference")
        self.event("canon", route_sig(r.route), bool(eq[1]), strict)

    def op_perturb(self, op, rng):
        s = self.slots[op["in"][0]]
        stats = {}
        try:
            new = bytecode.perturb(s.value, prng.PRNG(op["seed"]), op["kinds"], stats)
        except (IndexError, ValueError, KeyError):
            # the code object in transit is not even well-formed bytecode (only a broken encoder produces that):
            # no artefact to inject; the trip goes on and the lineage's invariants judge it
            self.count("perturb_input_unparseable")
            self.event("perturb-unparseable", op["id"])
            return None
        for k, v in stats.items():
            self.pstats[k] = self.pstats.get(k, 0) + v
            self.count("perturb_" + k, v)
        if new is s.value:
            self.count("perturb_noop")
            self.event("perturb-noop", op["id"])
            return None
        # whole-object gate (each step was gated too): CPython reads the same program
        if not bytecode.same_program(s.value, new):
            self.count("perturb_gate_discard_whole")
            self.event("perturb-discard", op["id"])
            return None
        r = self.add_slot(op, "code", new, s.lineage, s.route + ["perturb"], parent=s)
        self.faults_fired += 1
        self.count("fault_perturb")
        if stats.get("touched_nested"):
            self.probes["perturbation_touched_nested_code"] = self.probes.get("perturbation_touched_nested_code", 0) + 1
        if stats.get("movable_ge2"):
            self.probes["perturbed_table_had_ge2_movable"] = self.probes.get("perturbed_table_had_ge2_movable", 0) + 1
        self.event("perturb", op["id"], fp.digest(r.snap))
        return r

    def op_reshuffle(self, op, rng):
        """Benign transit perturbation of a document: key order and frozenset listings."""
        s = self.slots[op["in"][0]]
        r2 = prng.PRNG(op["seed"])
        touched = [0]

        def walk(v):
            if isinstance(v, dict):
                keys = list(v.keys())
                r2.shuffle(keys)
                out = {}
                for k in keys:
                    x = v[k]
                    if k == "frozenset" and isinstance(x, list) and len(v) == 1:
                        x = list(x)
                        r2.shuffle(x)
                        if len(x) > 1:
                            touched[0] += 1
                    out[k] = walk(x)
                return out
            if isinstance(v, list):
                return [walk(x) for x in v]
            return v

        new = walk(s.value)
        r = self.add_slot(op, "doc", new, s.lineage, s.route + ["reshuffle"], parent=s)
        self.faults_fired += 1
        self.count("fault_reshuffle")
        if touched[0]:
            self.probes["frozenset_listing_shuffled"] = self.probes.get("frozenset_listing_shuffled", 0) + 1
        self.event("reshuffle", op["id"])
        return r

    def op_dumps(self, op, rng):
        r = World.op_dumps(self, op, rng)
        return r

    def op_failed_call(self, op, rng):
        """A FAILED call in the history: one API call on the current state is aborted at a seeded instant
        (an exception arrives at the k-th line inside the library), or a foreign document naming an opcode this
        interpreter does not have is loaded and encoded (refused).  The caller carries on; nothing is checked here -
        the lineage's own invariants (N1/N2/N3) are checked on every later step as usual."""
        s = self.slots[op["in"][0]]
        name = op["call"]
        if op["how"] == "abort":
            thunk = lambda: api_call(name, s.value)  # noqa: E731
            if "k" not in op:
                n, _ = sched.count_lines(thunk)
                op["n_lines"] = n
                op["k"] = rng.randint(1, max(1, n))
            fired, where, out = sched.run_with_abort(thunk, op["k"], op.get("exc", "KeyboardInterrupt"))
            self.event("failed-call", name, op["k"], fired, out[0] if out[0] == "ok" else out[1])
            if fired:
                self.faults_fired += 1
                self.count("fault_aborted_call_in_history")
                self.count("fault_aborted_call_in_history_" + name)
                if where:
                    self.probes["history_abort_in_fn:" + where[0]] = self.probes.get("history_abort_in_fn:" + where[0], 0) + 1
            else:
                self.count("history_abort_not_fired")
            return None
        # foreign document with an opcode name unknown to this interpreter
        doc = sched._outcome(lambda: api_call("to_json_data", s.value))
        if doc[0] != "ok":
            return None
        doc = copy.deepcopy(doc[1])
        sites = []

        def walk(v):
            if isinstance(v, dict):
                if isinstance(v.get("blocks"), list):
                    for b in v["blocks"]:
                        if isinstance(b, list):
                            for ins in b:
                                if isinstance(ins, dict) and "name" in ins:
                                    sites.append(ins)
                for x in v.values():
                    walk(x)
            elif isinstance(v, list):
                for x in v:
                    walk(x)

        walk(doc)
        if not sites:
            return None
        sites[op["site"] % len(sites)]["name"] = "ZZ_NO_SUCH_OPCODE"
        out = sched._outcome(lambda: api_call("to_code", api_call("from_json_data", doc)))
        self.event("failed-call", "foreign-opcode", out[0] if out[0] == "ok" else out[1])
        if out[0] != "ok":
            self.faults_fired += 1
            self.count("fault_foreign_document_refused_in_history")
        return None

    def finish(self):
        pass


def route_sig(route):
    """Route shape with the lineage prefix dropped: what happened since the last normalize."""
    r = list(route)
    # keep only the tail after the previous normalize
    if "normalize" in r[:-1]:
        idx = len(r) - 2 - r[:-1][::-1].index("normalize")
        r = r[idx + 1:]
    return ">".join(r)


def swarm_c06(rng, tier):
    return {
        "trips": rng.randint(1, 8 if tier == "quick" else 12),
        "kinds": [k for k in bytecode.KINDS if rng.chance(0.7)] or [rng.choice(bytecode.KINDS)],
        "perturb_rate": rng.choice([0.0, 0.3, 0.6, 0.9]),
        "perturb_c0": rng.chance(0.5),
        "json_w": rng.choice([1, 2, 3]),
        "code_w": rng.choice([1, 2, 3]),
        "norm_w": rng.choice([0, 1, 2]),
        "fail_rate": rng.choice([0.0, 0.0, 0.25, 0.5]),
        "mix": [("gen", rng.choice([2, 5])), ("tmpl", rng.choice([2, 4])), ("corpus", rng.choice([0, 1, 2])), ("stdlib", rng.choice([0, 0, 1]))],
    }


DECOY_WRAPS = ["(%s, 2)", "(%s,)", "((%s, 1), 0)", "(0, %s, None)", "%s"]
DECOY_TEMPLATES = ["x = %s\n", "def f(a):\n    return (a, %s)\n", "def f(a=%s):\n    'doc'\n    return [a for _ in %s]\n", "t = [%s, 'z']\nu = %s\n"]


def decoy_ops(rng, member_src):
    """A program of ANOTHER lineage holding a confusable look-alike of the main lineage's constant: decoding and
    normalizing it between the main lineage's trips is harmless for a pure normalize, and primes any cache."""
    tmpl = rng.choice(DECOY_TEMPLATES)
    return {"op": "compile", "prog": {"kind": "decoy", "name": "decoy", "src": tmpl.replace("%s", member_src)}, "filename": "<decoy>", "mode": "exec", "optimize": 0}


def run_decoy(w, rng, cop):
    c = w.execute(dict(cop), rng)
    if c is None:
        return
    d = w.execute({"op": "from_code", "in": [c.id]}, rng)
    if d is None or w.stop:
        return
    w.execute({"op": "normalize", "in": [d.id], "ref": rng.chance(0.3)}, rng)
    w.count("fault_decoy_lineage_interleaved")
    w.faults_fired += 1


def raw_trips(w, rng, d):
    """0-2 code round trips of the UN-normalized decoded data before the next normalize: an API round trip
    like any other (harmless when the raw round trip is lossless)."""
    for _ in range(rng.choice([0, 0, 0, 1, 1, 2])):
        c = w.execute({"op": "to_code", "in": [d.id], "raw": True}, rng)
        if c is None or w.stop:
            return None if w.stop else d
        d2 = w.execute({"op": "from_code", "in": [c.id]}, rng)
        if d2 is None or w.stop:
            return None if w.stop else d
        w.count("fault_raw_code_trip_before_normalize")
        w.faults_fired += 1
        d = d2
    return d


def run_c06(seed, tree, tier, known):
    rng = prng.PRNG(seed)
    cfg = swarm_c06(rng, tier)
    w = World06(tree, known, tier)
    decoys = []
    if rng.chance(0.4):
        fam = rng.choice(workload.CONFUSABLE_FAMILIES)
        wrap = rng.choice(DECOY_WRAPS)
        members = rng.sample(fam, min(len(fam), 3))
        main_src = rng.choice(DECOY_TEMPLATES).replace("%s", wrap % members[0])
        decoys = [decoy_ops(rng, wrap % m) for m in members[1:]]
        first = {"op": "compile", "prog": {"kind": "twin", "name": "twin-main", "src": main_src}, "filename": "<sim>", "mode": "exec", "optimize": 0}
        if decoys and rng.chance(0.5):
            run_decoy(w, rng, decoys[0])  # the look-alike is normalized BEFORE the main lineage exists
    else:
        first = compile_op(rng, tree, tier, cfg["mix"])
    if w.stop:
        return w, cfg
    s = w.execute(first, rng)
    if s is None:
        s = w.execute({"op": "compile", "prog": {"kind": "tmpl", "name": "fallback", "src": "def f(a, b=2):\n    c = a in {1, 'x'}\n    return [c for _ in b]\n"}}, rng)
    if s.meta.get("w", 0) > 20000:
        cfg["trips"] = min(cfg["trips"], 2)  # a 2^16-entry program: every step costs seconds
        decoys = []
    n = s.meta.get("n_code_objects", 1)
    if n > 1 and rng.chance(0.35):
        s = w.execute({"op": "nested", "in": [s.id], "index": rng.randint(1, n - 1)}, rng) or s
    lineage = s.lineage
    # reference: the unperturbed lineage
    d0 = w.execute({"op": "from_code", "in": [s.id]}, rng)
    if d0 is None:
        return w, cfg
    d0.lineage = lineage
    state = w.execute({"op": "normalize", "in": [d0.id], "ref": rng.chance(0.5)}, rng)
    if state is None or w.stop:
        return w, cfg
    # a perturbed variant of c0 itself must normalize to the same thing
    if cfg["perturb_c0"]:
        p = w.execute({"op": "perturb", "in": [s.id], "seed": rng.next64(), "kinds": cfg["kinds"]}, rng)
        if p is not None:
            p.lineage = lineage
            dp = w.execute({"op": "from_code", "in": [p.id]}, rng)
            if dp is not None and not w.stop:
                dp = raw_trips(w, rng, dp)
            if dp is not None and not w.stop:
                w.execute({"op": "normalize", "in": [dp.id]}, rng)
    t = 0
    while t < cfg["trips"] and not w.stop and state is not None:
        t += 1
        w.trips += 1
        if decoys and rng.chance(0.4):
            run_decoy(w, rng, rng.choice(decoys))
            if w.stop:
                break
        if cfg["fail_rate"] and s.meta.get("w", 0) <= 1500 and rng.chance(cfg["fail_rate"]):
            if rng.chance(0.7):
                w.execute({"op": "failed_call", "in": [state.id], "how": "abort", "call": rng.choice(["to_code", "to_code", "to_json_data", "normalize"]),
                           "exc": rng.choice(["KeyboardInterrupt", "MemoryError", "SimAbort"])}, rng)
            else:
                w.execute({"op": "failed_call", "in": [state.id], "how": "foreign", "call": "to_code", "site": rng.randint(0, 10 ** 6)}, rng)
            if w.stop:
                break
        k = rng.weighted([("json", cfg["json_w"]), ("code", cfg["code_w"]), ("norm", cfg["norm_w"])])
        if k == "norm":
            nxt = w.execute({"op": "normalize", "in": [state.id], "ref": rng.chance(0.15)}, rng)
        elif k == "code":
            c = w.execute({"op": "to_code", "in": [state.id]}, rng)
            if c is None:
                break
            if rng.chance(cfg["perturb_rate"]):
                p = w.execute({"op": "perturb", "in": [c.id], "seed": rng.next64(), "kinds": cfg["kinds"]}, rng)
                c = p or c
            d = w.execute({"op": "from_code", "in": [c.id]}, rng)
            if d is None:
                break
            d = raw_trips(w, rng, d)
            if d is None:
                break
            nxt = w.execute({"op": "normalize", "in": [d.id], "ref": rng.chance(0.15)}, rng)
        else:
            j = w.execute({"op": "to_json_data", "in": [state.id]}, rng)
            if j is None:
                break
            if rng.chance(0.6):
                tx = w.execute({"op": "dumps", "in": [j.id], "opts": {"ensure_ascii": rng.chance(0.5), "sort_keys": rng.chance(0.3), "indent": rng.chance(0.2), "compact": rng.chance(0.3)}}, rng)
                if tx is None:
                    break
                j = w.execute({"op": "loads", "in": [tx.id]}, rng)
                if j is None:
                    break
            if rng.chance(0.5):
                j = w.execute({"op": "reshuffle", "in": [j.id], "seed": rng.next64()}, rng) or j
            d = w.execute({"op": "from_json_data", "in": [j.id]}, rng)
            if d is None:
                break
            nxt = w.execute({"op": "normalize", "in": [d.id]}, rng)
        if nxt is None:
            break
        state = nxt
        # keep the pool small: drop everything but the lineage anchors and the state
        keep = set([s.id, state.id]) | set(x.id for x in w.N0.values() if x.lineage == lineage)
        for i in sorted(w.slots):
            if i not in keep:
                w.execute({"op": "evict", "in": [i]}, rng)
    return w, cfg
