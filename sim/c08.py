"""C08 on engine A: CodeData is an immutable value -- hash/eq contract and type-exact equality,
over pairs of values built by DIFFERENT ROUTES (object identity of constants is hidden state
determined by the operation history, exactly like a hash seed).

The pool holds CodeData values of one program family: decoded, normalized, code-tripped,
JSON-reloaded, pickle-reloaded, marshal-reloaded, re-compiled, leaf-by-leaf cloned (identity
loss, F6) and confusable twins (F7: the same program with one constant replaced by a
CPython-distinct look-alike).  Every value entering the pool is checked against every member.
"""
import copy
import ctypes
import dataclasses
import math
import marshal
import pickle
import sys

from . import fp, prng, sched, workload
from .engine_a import compile_op, zoo_expr
from .world import World, api_call, snap


# ---- references -------------------------------------------------------------------------

def clone_leaf(x):
    """A fresh object with the same value (identity loss)."""
    t = type(x)
    if x is None or x is Ellipsis or t is bool:
        return x
    if t is int:
        return int(hex(x), 16)
    if t is float:
        return float("nan") if math.isnan(x) else float.fromhex(x.hex())
    if t is complex:
        return complex(clone_leaf(x.real), clone_leaf(x.imag))
    if t is str:
        return (x + "\x00")[:-1] if x else x
    if t is bytes:
        return bytes(bytearray(x))
    if t is tuple:
        return tuple(clone_leaf(v) for v in x)
    if t is frozenset:
        return frozenset(clone_leaf(v) for v in x)
    if dataclasses.is_dataclass(x):
        return t(**{f.name: clone_leaf(getattr(x, f.name)) for f in dataclasses.fields(x)})
    return x


_CKEY = None


def ckey_fn():
    global _CKEY
    if _CKEY is None:
        f = ctypes.pythonapi._PyCode_ConstantKey
        f.restype = ctypes.py_object
        f.argtypes = [ctypes.py_object]
        _CKEY = f
    return _CKEY


def intern_consts(v, table):
    """Rebuild v from leaves interned by strict fingerprint, so that CPython's identity
    short-cuts make all NaNs (and only equal-by-fingerprint leaves) the same object."""
    t = type(v)
    if t is tuple:
        return tuple(intern_consts(x, table) for x in v)
    if t is frozenset:
        return frozenset(intern_consts(x, table) for x in v)
    k = fp.const_fp(v)
    if k not in table:
        table[k] = v
    return table[k]


def cpython_same_constant(a, b):
    """CPython's own partition of constants (_PyCode_ConstantKey), NaNs identified."""
    table = {}
    ka = ckey_fn()(intern_consts(a, table))
    kb = ckey_fn()(intern_consts(b, table))
    return ka == kb


def frozen_violations(obj):
    """Try to mutate a dataclass instance in the three ways there are; returns list of ways that worked."""
    bad = []
    fields = dataclasses.fields(obj)
    if fields:
        name = fields[0].name
        old = getattr(obj, name)
        try:
            setattr(obj, name, old)
            bad.append("setattr-field")
        except dataclasses.FrozenInstanceError:
            pass
        except Exception as e:
            bad.append("setattr-field-raises-" + type(e).__name__)
        try:
            delattr(obj, name)
            bad.append("delattr-field")
            object.__setattr__(obj, name, old)
        except dataclasses.FrozenInstanceError:
            pass
        except Exception as e:
            bad.append("delattr-raises-" + type(e).__name__)
    try:
        setattr(obj, "zz_new_attribute", 1)
        bad.append("setattr-new")
        try:
            object.__delattr__(obj, "zz_new_attribute")
        except Exception:
            pass
    except dataclasses.FrozenInstanceError:
        pass
    except Exception as e:
        bad.append("setattr-new-raises-" + type(e).__name__)
    return bad


def walk_dataclasses(d, out, limit=400):
    if len(out) >= limit:
        return
    if dataclasses.is_dataclass(d) and not isinstance(d, type):
        out.append(d)
        for f in dataclasses.fields(d):
            walk_dataclasses(getattr(d, f.name), out, limit)
    elif isinstance(d, (tuple, frozenset)):
        for x in d:
            walk_dataclasses(x, out, limit)


def locate_eq_hash(a, b):
    """Smallest sub-part where a == b but hash differs: (class name, leaf description)."""
    try:
        if not (a == b) or hash(a) == hash(b):
            return None
    except Exception:
        return None
    if dataclasses.is_dataclass(a) and type(a) is type(b):
        for f in dataclasses.fields(a):
            r = locate_eq_hash(getattr(a, f.name), getattr(b, f.name))
            if r:
                return r
        return (type(a).__name__, "")
    if isinstance(a, tuple) and isinstance(b, tuple) and len(a) == len(b):
        for x, y in zip(a, b):
            r = locate_eq_hash(x, y)
            if r:
                return r
    return (type(a).__name__, "")


def has_nan(v):
    t = type(v)
    if t is float:
        return math.isnan(v)
    if t is complex:
        return math.isnan(v.real) or math.isnan(v.imag)
    if t in (tuple, frozenset):
        return any(has_nan(x) for x in v)
    return False


def const_kind(v):
    """Coarse constant class for fingerprints: 'nan' when a NaN occurs anywhere inside."""
    if has_nan(v):
        return "nan"
    return type(v).__name__


def const_kind_detailed(v):
    t = type(v)
    if t is float:
        return "float-nan" if math.isnan(v) else "float"
    if t is complex:
        return "complex-nan" if (math.isnan(v.real) or math.isnan(v.imag)) else "complex"
    if t in (tuple, frozenset):
        inner = sorted(set(const_kind(x) for x in v))
        return "%s[%s]" % (t.__name__, ",".join(inner))
    return t.__name__


class World08(World):
    PROP = "C08"

    def __init__(self, tree, known=None, tier="quick"):
        World.__init__(self, tree, known, tier)
        self.pool = []  # slots of kind data, in insertion order
        self.code_fp_of = {}  # slot id -> fingerprint of to_code() (or ("raise", ..))
        self.eq_cache = {}
        self.identity_loss = 0

    # ---- ops that lose identity (F6) / build twins (F7) ---------------------------------
    def after_api(self, op, name, arg, outcome, ofp, mode):
        if outcome[0] != "ok":
            self.count("api_raise_" + name)
            return None
        value = outcome[1]
        kind = {"from_code": "data", "to_code": "code", "normalize": "data", "to_json_data": "doc", "from_json_data": "data"}[name]
        r = self.add_slot(op, kind, value, arg.lineage, arg.route + [name], snapshot=self._result_snap, parent=arg)
        r.decoded = (name == "from_code") or (arg.decoded and name in ("to_json_data", "from_json_data", "to_code"))
        r.normalized = (name == "normalize") or (arg.normalized and name in ("to_json_data", "from_json_data"))
        if name == "normalize":
            r.decoded = False
        if kind == "data":
            self.enter_pool(r)
        return r

    def _reload(self, op, fn, label, kind="data"):
        s = self.slots[op["in"][0]]
        try:
            v = fn(s.value)
        except Exception as e:
            self.event(label + "-raise", type(e).__name__)
            self.count(label + "_raise")
            if label in ("pickle_trip", "deepcopy_data"):
                self.violate("V0-not-picklable", label, type(e).__name__, {"exc": str(e)[:200]})
            return None
        r = self.add_slot(op, kind, v, s.lineage, s.route + [label], parent=s)
        r.decoded = s.decoded
        r.normalized = s.normalized
        if r.snap != s.snap:
            # a value that changes when it is copied, pickled or marshalled does not behave as a value
            loc = fp.diff_path(s.snap, r.snap) or "?"
            self.violate("V7-reload-differs", label, loc, {"route": s.route})
            return None
        self.faults_fired += 1
        self.identity_loss += 1
        self.count("fault_identity_loss_" + label)
        self.event(label, op["id"], fp.digest(r.snap))
        if kind == "data":
            self.enter_pool(r)
        return r

    def op_pickle_trip(self, op, rng):
        return self._reload(op, lambda v: pickle.loads(pickle.dumps(v, op.get("protocol", 2))), "pickle_trip")

    def op_clone(self, op, rng):
        return self._reload(op, clone_leaf, "clone")

    def op_deepcopy_data(self, op, rng):
        # identity-PRESERVING control
        s = self.slots[op["in"][0]]
        which = op.get("how", "deepcopy")
        r = self.add_slot(op, "data", copy.deepcopy(s.value) if which == "deepcopy" else copy.copy(s.value), s.lineage, s.route + ["deepcopy_data"], parent=s)
        r.decoded = s.decoded
        r.normalized = s.normalized
        if r.snap != s.snap:
            self.violate("V7-reload-differs", which, fp.diff_path(s.snap, r.snap) or "?", {"route": s.route})
            return None
        self.count("control_deepcopy")
        self.event("deepcopy_data", op["id"])
        self.enter_pool(r)
        return r

    def op_artefact_variant(self, op, rng):
        """A DIFFERENT code object that differs only in one serialization artefact (junk operand byte of a
        no-argument opcode, CO_NESTED, an unreferenced constant): its decoded data must NOT equal the original's
        (equal CodeData encode to identical code objects), although both normalize alike."""
        from . import bytecode

        s = self.slots[op["in"][0]]
        new = None
        r2 = prng.PRNG(op["seed"])
        for _ in range(4):
            try:
                new = bytecode.perturb_once(s.value, op["kind"], r2, {})
            except Exception:
                new = None
            if new is not None and fp.code_fp(new) != fp.code_fp(s.value) and bytecode.same_program(s.value, new):
                break
            new = None
        if new is None:
            self.count("artefact_variant_not_applicable")
            return None
        r = self.add_slot(op, "code", new, s.lineage, s.route + ["artefact:" + op["kind"]], parent=s)
        self.faults_fired += 1
        self.count("fault_artefact_variant_" + op["kind"])
        self.event("artefact_variant", op["id"], op["kind"])
        return r

    def op_hand_edit(self, op, rng):
        """A DIFFERENT value made by editing data by hand (dataclasses.replace, as docs/example_modify.md does):
        one more (unreachable) block at the end, or one jump operand replaced by the bare integer of its target.
        It encodes differently, so it must not compare equal to the value it was made from."""
        import code_data

        s = self.slots[op["in"][0]]
        d = s.value
        try:
            if op["kind"] == "append_block":
                extra = (code_data.Instruction("NOP", line_number=d.first_line_number), code_data.Instruction("NOP"))
                new = dataclasses.replace(d, blocks=d.blocks + (extra,))
            else:
                hit = None
                for bi, blk in enumerate(d.blocks):
                    for ii, ins in enumerate(blk):
                        if type(ins.arg).__name__ == "Jump" and not ins.arg.relative:
                            hit = (bi, ii, ins)
                            break
                    if hit:
                        break
                if hit is None:
                    self.count("hand_edit_not_applicable")
                    return None
                bi, ii, ins = hit
                blk = d.blocks[bi]
                blk2 = blk[:ii] + (dataclasses.replace(ins, arg=ins.arg.target, _n_args_override=None),) + blk[ii + 1:]
                new = dataclasses.replace(d, blocks=d.blocks[:bi] + (blk2,) + d.blocks[bi + 1:])
        except Exception as e:
            self.count("hand_edit_failed_" + type(e).__name__)
            return None
        r = self.add_slot(op, "data", new, s.lineage, s.route + ["edit:" + op["kind"]], parent=s)
        r.decoded = False
        self.faults_fired += 1
        self.count("fault_hand_edit_" + op["kind"])
        self.event("hand_edit", op["id"], op["kind"])
        self.enter_pool(r)
        return r

    def op_marshal_trip(self, op, rng):
        r = self._reload(op, lambda c: marshal.loads(marshal.dumps(c)), "marshal_trip", kind="code")
        return r

    # ---- the pool invariants -----------------------------------------------------------
    def to_code_fp(self, s):
        if s.id not in self.code_fp_of:
            out = sched._outcome(lambda: s.value.to_code())
            self.code_fp_of[s.id] = ("ok", fp.code_fp(out[1])) if out[0] == "ok" else ("raise", out[1])
        return self.code_fp_of[s.id]

    def eq(self, a, b):
        key = (a.id, b.id)
        if key not in self.eq_cache:
            out = sched._outcome(lambda: a.value == b.value)
            self.eq_cache[key] = out
        return self.eq_cache[key]

    def enter_pool(self, r):
        v = r.value
        rs = route_tag(r)
        # hashable
        h = sched._outcome(lambda: hash(v))
        if h[0] != "ok":
            self.violate("V1-unhashable", rs, h[1], {"exc": h[1:], "route": r.route})
            return
        # reflexive
        e = sched._outcome(lambda: v == v)
        if e[0] != "ok" or e[1] is not True:
            self.violate("V2-not-reflexive", rs, "self", {"route": r.route, "out": repr(e)[:100]})
            return
        # comparisons with foreign objects: never an exception, never equal, != consistent
        for foreign in (None, 0, "x", (), 1.5, object()):
            out = sched._outcome(lambda: (v == foreign, foreign == v, v != foreign))
            if out[0] != "ok" or out[1] != (False, False, True):
                self.violate("V2-foreign-comparison", rs, type(foreign).__name__, {"out": repr(out)[:120]})
                return
        # a part never equals one of its own field values of another type (Jump(3) is not 3, Name('a') is not 'a')
        parts0 = []
        walk_dataclasses(v, parts0, 120)
        seen_types = set()
        for obj in parts0:
            if type(obj) in seen_types and len(seen_types) > 8:
                continue
            seen_types.add(type(obj))
            for f in dataclasses.fields(obj):
                fv = getattr(obj, f.name)
                if type(fv) is type(obj) or dataclasses.is_dataclass(fv):
                    continue
                out = sched._outcome(lambda: (obj == fv, fv == obj))
                if out[0] != "ok" or out[1] != (False, False):
                    self.violate("V2-foreign-comparison", type(obj).__name__, "own-field:" + f.name, {"value": repr(fv)[:60], "out": repr(out)[:80]})
                    return
        # immutability of every dataclass instance inside (sampled by position)
        parts = []
        walk_dataclasses(v, parts)
        step = max(1, len(parts) // 12)
        for obj in parts[::step]:
            bad = frozen_violations(obj)
            if bad:
                self.violate("V6-mutable", type(obj).__name__, bad[0], {"ways": bad})
                return
        self.count("immutability_checked", len(parts[::step]))
        # hostile caller on ACCESSOR results: whatever a property hands out must not be shared state
        args_objs = [o for o in parts if type(o).__name__ == "Args"][:3]
        if args_objs:
            before_code = self.to_code_fp(r)
            for a in args_objs:
                out = sched._outcome(lambda: (list(a.parameters.items()), len(a)))
                if out[0] != "ok":
                    continue
                snap1, n1 = out[1]
                try:
                    p1 = a.parameters
                    p1.clear()
                    p1["zz_scribbled"] = None
                except Exception:
                    pass
                again = sched._outcome(lambda: (list(a.parameters.items()), len(a)))
                twin = sched._outcome(lambda: list(type(a)(**{f.name: getattr(a, f.name) for f in dataclasses.fields(a)}).parameters.items()))
                self.count("accessor_scribble_checked")
                if again[0] != "ok" or again[1] != (snap1, n1) or twin[0] != "ok" or twin[1] != snap1:
                    self.violate("V6-mutable", "Args", "parameters-shared-after-caller-mutation", {"before": repr(snap1)[:120], "after": repr(again)[:120]})
                    return
            self.code_fp_of.pop(r.id, None)
            after_code = self.to_code_fp(r)
            if before_code != after_code:
                self.violate("V6-mutable", "Args", "to_code-changed-after-caller-mutated-parameters", {})
                return
        if r.snap != snap("data", v):
            self.violate("V6-mutable", "CodeData", "changed-by-probe", {})
            return
        for u in self.pool:
            self.pair_check(u, r)
            if self.stop:
                return
        # transitivity over triples involving r
        n = len(self.pool)
        for i in range(n):
            for j in range(i + 1, n):
                a, b = self.pool[i], self.pool[j]
                ab = self.eq(a, b)[1] is True
                ar = self.eq(a, r)[1] is True
                br = self.eq(b, r)[1] is True
                self.count("triples_checked")
                if (ab and br and not ar) or (ab and ar and not br) or (ar and br and not ab):
                    self.violate("V3-not-transitive", "%s~%s~%s" % (route_tag(a), route_tag(b), rs), "triple", {"eq": [ab, ar, br]})
                    return
        self.pool.append(r)
        self.event("pool", rs, len(self.pool))

    def pair_check(self, u, r):
        a, b = u.value, r.value
        tag = "%s~%s" % tuple(sorted([route_tag(u), route_tag(r)]))
        e1 = self.eq(u, r)
        e2 = self.eq(r, u)
        self.count("pairs_checked")
        if e1[0] != "ok" or e2[0] != "ok":
            self.violate("V2-eq-raises", tag, (e1[1] if e1[0] != "ok" else e2[1]), {})
            return
        if e1[1] != e2[1]:
            self.violate("V2-not-symmetric", tag, "pair", {"ab": e1[1], "ba": e2[1]})
            return
        equal = e1[1] is True
        ne = sched._outcome(lambda: a != b)
        if ne[0] == "ok" and ne[1] == equal:
            self.violate("V2-ne-inconsistent", tag, "pair", {"eq": equal, "ne": ne[1]})
            return
        fa, fb = self.to_code_fp(u), self.to_code_fp(r)
        ref = fa[0] == "ok" and fb[0] == "ok" and fa[1] == fb[1]
        no_shared = None
        if equal:
            self.count("equal_pairs")
            ha, hb = hash(a), hash(b)
            if ha != hb:
                loc = locate_eq_hash(a, b) or ("?", "")
                where = loc[0]
                if where == "Constant":
                    where = "Constant[%s]" % self._const_kind_at(a, b)
                self.violate("V4-equal-but-hash-differs", tag, where, {"routes": [u.route, r.route]})
                return
            ok_set = len({a, b}) == 1 and (b in {a}) and ({a: 1}.get(b) == 1)
            if not ok_set:
                self.violate("V4-set-dict-broken", tag, "pair", {})
                return
            if fa[0] == "ok" and fb[0] == "ok" and not ref:
                loc = fp.diff_path(fa[1], fb[1]) or "?"
                self.violate("V5-equal-but-different-code", tag, loc, {"fields": fp.code_diff_fields(fa[1], fb[1])})
                return
            if fa[0] != fb[0]:
                self.violate("V5-equal-but-one-encodes", tag, "%s/%s" % (fa[0], fb[0]), {})
                return
            if u.lineage != r.lineage or "clone" in r.route or "pickle_trip" in r.route or "from_json_data" in r.route:
                self.probes["equal_pair_without_shared_identity"] = self.probes.get("equal_pair_without_shared_identity", 0) + 1
        else:
            self.count("unequal_pairs")
            # for decoded data identical code objects imply equal CodeData
            if ref and u.decoded and r.decoded:
                loc = fp.diff_path(u.snap, r.snap) or "?"
                self.violate("V5-same-code-but-unequal", tag, loc, {"routes": [u.route, r.route]})
                return

    def _const_kind_at(self, a, b):
        # find the first Constant pair that is == with different hash
        ca, cb = [], []
        collect_constants(a, ca)
        collect_constants(b, cb)
        for x, y in zip(ca, cb):
            try:
                if x == y and hash(x) != hash(y):
                    return const_kind(x.constant)
            except Exception:
                pass
        return "?"

    # ---- Constant-level checks -------------------------------------------------------------
    def op_const_check(self, op, rng):
        """Pairs of bare Constant values given as eval-able expression texts."""
        import code_data

        C = code_data.Constant
        vals = []
        for e in op["exprs"]:
            try:
                v = eval(compile(e, "<zoo>", "eval"), {"__builtins__": {}, "frozenset": frozenset})
            except Exception:
                continue
            vals.append((e, v))
            if op.get("with_clones", True):
                vals.append((e + "#clone", clone_leaf(v)))
        n = 0
        for i in range(len(vals)):
            for j in range(i, len(vals)):
                (ea, a), (eb, b) = vals[i], vals[j]
                n += 1
                ca, cb = C(a), C(b)
                want = fp.const_fp(a) == fp.const_fp(b)
                cp = cpython_same_constant(a, b)
                if cp != want:
                    raise RuntimeError("harness reference disagreement on %r vs %r: fingerprint says %s, _PyCode_ConstantKey says %s" % (ea, eb, want, cp))
                got = sched._outcome(lambda: (ca == cb, cb == ca))
                if got[0] != "ok":
                    self.violate("K1-constant-eq-raises", "Constant", "%s~%s" % tuple(sorted([const_kind(a), const_kind(b)])), {"a": ea, "b": eb, "exc": got[1:]})
                    return None
                if got[1][0] != got[1][1]:
                    self.violate("K1-constant-eq-asymmetric", "Constant", "%s~%s" % tuple(sorted([const_kind(a), const_kind(b)])), {"a": ea, "b": eb})
                    return None
                if got[1][0] != want:
                    inv = "K2-constant-too-coarse" if got[1][0] else "K2-constant-too-fine"
                    self.violate(inv, "Constant", "%s~%s" % tuple(sorted([const_kind(a), const_kind(b)])), {"a": ea, "b": eb, "eq": got[1][0], "cpython_same": want})
                    return None
                if want:
                    hh = sched._outcome(lambda: (hash(ca), hash(cb)))
                    if hh[0] != "ok":
                        self.violate("V1-unhashable", "Constant", const_kind(a), {"a": ea})
                        return None
                    if hh[1][0] != hh[1][1]:
                        self.violate("V4-equal-but-hash-differs", "Constant", "Constant[%s]" % const_kind(a), {"a": ea, "b": eb})
                        return None
                    if len({ca, cb}) != 1:
                        self.violate("V4-set-dict-broken", "Constant", const_kind(a), {"a": ea, "b": eb})
                        return None
                # an index override makes constants different
                if C(a, 1) == C(a, 2) or C(a, None) == C(a, 0):
                    self.violate("K2-constant-too-coarse", "Constant", "index_override", {"a": ea})
                    return None
        self.count("constant_pairs_checked", n)
        self.api_ops += 1
        self.event("const_check", n)
        return None

    def op_const_transient(self, op, rng):
        """Create-use-drop histories: each value is built, wrapped, compared and hashed, then DROPPED before
        the next one is built (so a later container can land on a freed one's address), and compared with
        long-lived clones of everything seen so far.  Catches caches keyed by object identity."""
        import code_data
        import gc

        C = code_data.Constant
        env = {"__builtins__": {}, "frozenset": frozenset}
        kept = []  # (expr, long-lived clone, fingerprint)
        n = 0
        for e in op["exprs"]:
            try:
                v = eval(compile(e, "<zoo>", "eval"), env)
            except Exception:
                continue
            want_fp = fp.const_fp(v)
            out = sched._outcome(lambda: (C(v) == C(v), hash(C(v))))
            if out[0] != "ok" or out[1][0] is not True:
                self.violate("K1-constant-eq-raises" if out[0] != "ok" else "V2-not-reflexive", "Constant", const_kind(v), {"a": e, "mode": "transient"})
                return None
            for (ek, k, kfp) in kept[-24:]:
                n += 1
                got = sched._outcome(lambda: (C(v) == C(k), C(k) == C(v), hash(C(v)) == hash(C(k))))
                want = want_fp == kfp
                if got[0] != "ok":
                    self.violate("K1-constant-eq-raises", "Constant", const_kind(v), {"a": e, "b": ek, "mode": "transient"})
                    return None
                if got[1][0] != want or got[1][1] != want:
                    inv = "K2-constant-too-coarse" if (got[1][0] or got[1][1]) else "K2-constant-too-fine"
                    self.violate(inv, "Constant", "%s~%s" % tuple(sorted([const_kind(v), const_kind(k)])), {"a": e, "b": ek, "mode": "transient-after-drop", "eq": list(got[1][:2]), "cpython_same": want})
                    return None
                if want and not got[1][2]:
                    self.violate("V4-equal-but-hash-differs", "Constant", "Constant[%s]" % const_kind(v), {"a": e, "b": ek, "mode": "transient-after-drop"})
                    return None
            kept.append((e, clone_leaf(v), want_fp))
            del v
            if op.get("gc"):
                gc.collect()
        self.count("constant_transient_pairs_checked", n)
        self.count("fault_create_drop_history")
        self.faults_fired += 1
        self.api_ops += 1
        self.event("const_transient", n)
        return None

    def op_stack_pressure(self, op, rng):
        """Resource fault: hash / == / set membership evaluated with only r interpreter frames left, for EVERY r in
        a window around exhaustion.  Each evaluation must either report the exhaustion (RecursionError) or give
        the answer it gives on a shallow stack (V8): a value's hash and equality cannot depend on where on the
        stack they are asked for."""
        import code_data

        C = code_data.Constant
        pairs = []
        env = {"__builtins__": {}, "frozenset": frozenset}
        if op.get("exprs"):
            vals = []
            for e in op["exprs"]:
                try:
                    vals.append((e, eval(compile(e, "<zoo>", "eval"), env)))
                except Exception:
                    continue
            for i in range(len(vals)):
                j = (i + 1) % len(vals)
                pairs.append(("Constant[%s]" % const_kind(vals[i][1]), C(vals[i][1]), C(clone_leaf(vals[i][1])), C(vals[j][1]), vals[i][0]))
        for i in op.get("in", []):
            sl = self.slots[i]
            other = sched._outcome(lambda: pickle.loads(pickle.dumps(sl.value, 2)))
            if other[0] == "ok":
                pairs.append(("CodeData", sl.value, other[1], other[1], "slot"))
        depth = 0
        f = sys._getframe()
        while f is not None:
            depth += 1
            f = f.f_back
        limit = sys.getrecursionlimit()
        room = limit - depth
        window = op.get("window", 70)
        n = 0
        for kind, x, twin, y, label in pairs:
            thunk = lambda: (hash(x), x == twin, x == y, y == x, x in {twin}, len({x, twin, y}))  # noqa: E731
            base = sched._outcome(thunk)
            if base[0] != "ok":
                continue  # ordinary checks report that

            def rec(k):
                if k <= 0:
                    try:
                        return ("ok", thunk())
                    except RecursionError:
                        return ("exhausted",)
                return rec(k - 1)

            for r in range(window, -3, -1):
                fill = room - r - 3
                if fill < 1:
                    continue
                try:
                    got = rec(fill)
                except RecursionError:
                    got = ("exhausted",)
                n += 1
                if got[0] == "exhausted":
                    self.probes["stack_pressure_reported_exhaustion"] = self.probes.get("stack_pressure_reported_exhaustion", 0) + 1
                    continue
                if got[1] != base[1]:
                    names = ("hash", "eq-twin", "eq-other", "eq-other-reversed", "in-set", "set-size")
                    diff = [nm for nm, a, b in zip(names, base[1], got[1]) if a != b]
                    self.violate("V8-answer-depends-on-remaining-stack", kind, ",".join(diff), {"a": label, "frames_left": r, "shallow": list(base[1][1:]), "deep": list(got[1][1:])})
                    return None
        self.count("stack_pressure_evaluations", n)
        self.count("fault_stack_pressure")
        self.faults_fired += 1
        self.api_ops += 1
        self.event("stack_pressure", n)
        return None

    def op_drop(self, op, rng):
        """Drop a pool member (and collect garbage): later values may reuse its addresses."""
        import gc

        i = op["in"][0]
        s = self.slots.pop(i, None)
        self.pool = [x for x in self.pool if x.id != i]
        self.code_fp_of.pop(i, None)
        del s
        gc.collect()
        self.count("fault_drop_pool_member")
        self.event("drop", i)
        return None

    def finish(self):
        pass


def transient_exprs(rng):
    fams = workload.CONFUSABLE_FAMILIES + workload.SAME_FAMILIES
    out = []
    wrap = rng.choice(["(%s, 2)", "(%s,)", "frozenset([%s, 'q'])", "((%s, 1), 0)", "(0, %s, None)"])
    for fam in rng.sample(fams, min(len(fams), rng.randint(2, 5))):
        for e in fam:
            out.append(wrap % e)
    rng.shuffle(out)
    return out


def collect_constants(d, out):
    if dataclasses.is_dataclass(d) and not isinstance(d, type):
        if type(d).__name__ == "Constant":
            out.append(d)
        for f in dataclasses.fields(d):
            collect_constants(getattr(d, f.name), out)
    elif isinstance(d, tuple):
        for x in d:
            collect_constants(x, out)


def route_tag(s):
    """Route class of a pool member, for fingerprints: the identity-relevant steps only."""
    keep = [x for x in s.route if x in ("normalize", "from_json_data", "pickle_trip", "clone", "marshal_trip", "deepcopy_data", "graft") or x.startswith("artefact:") or x.startswith("edit:")]
    # collapse repeats
    out = []
    for x in keep:
        if not out or out[-1] != x:
            out.append(x)
    return "+".join(out) or "decode"


TWIN_TEMPLATES = [
    "x = %s\n",
    "def f(a):\n    return (a, %s)\n",
    "def f(a):\n    return a in {%s, 'k'}\n",
    "t = (%s, 'z')\nu = [%s]\n",
    "def f(a=%s, *, b=(%s, 2)):\n    'doc'\n    return lambda: %s\n",
    "class K:\n    v = %s\n    def m(self):\n        return [%s for _ in self]\n",
]


def all_table_exprs():
    exprs = []
    for fam in workload.CONFUSABLE_FAMILIES + workload.SAME_FAMILIES:
        for e in fam:
            if e not in exprs:
                exprs.append(e)
    wrapped = []
    for e in exprs:
        wrapped.append(e)
        wrapped.append("(%s,)" % e)
        wrapped.append("frozenset([%s])" % e)
        wrapped.append("((%s, 1), 'n')" % e)
    return wrapped


def reload_stage(items, tree):
    """Cross-process stage (restart: only the pickled bytes survive; this process has ANOTHER hash seed):
    the reloaded value must equal, hash like, and share a set bucket with the value decoded here from the
    same program."""
    import base64
    import code_data

    out = {"checked": 0, "violations": []}
    for it in items:
        cop = it["cop"]
        src = workload.program_source(cop["prog"], tree)
        code = workload.try_compile(src, cop.get("filename", "<sim>"), cop.get("mode", "exec"), cop.get("optimize", 0))
        if code is None:
            continue
        y = code_data.CodeData.from_code(code)
        try:
            x = pickle.loads(base64.b64decode(it["pickle"]))
        except Exception as e:
            out["violations"].append({"property": "C08", "fingerprint": "C08/V0-not-picklable/reload/" + type(e).__name__, "invariant": "V0-not-picklable", "item": it["run"]})
            continue
        out["checked"] += 1
        if fp.digest(fp.data_fp(x)) != it["fp"]:
            out["violations"].append({"property": "C08", "fingerprint": "C08/V7-reload-differs/pickle/other-process", "invariant": "V7-reload-differs", "item": it["run"]})
            continue
        res = sched._outcome(lambda: (x == y, y == x, hash(x) == hash(y), len({x, y}) == 1, y in {x}))
        if res[0] != "ok":
            out["violations"].append({"property": "C08", "fingerprint": "C08/V2-eq-raises/reload/" + res[1], "invariant": "V2-eq-raises", "item": it["run"]})
        elif not (res[1][0] and res[1][1]):
            out["violations"].append({"property": "C08", "fingerprint": "C08/V5-same-code-but-unequal/decode~pickle-from-other-process/?", "invariant": "V5-same-code-but-unequal", "item": it["run"]})
        elif not (res[1][2] and res[1][3] and res[1][4]):
            out["violations"].append({"property": "C08", "fingerprint": "C08/V4-equal-but-hash-differs/decode~pickle-from-other-process/CodeData", "invariant": "V4-equal-but-hash-differs", "item": it["run"]})
    return out


def swarm_c08(rng, tier):
    return {
        "routes": rng.randint(3, 9 if tier == "quick" else 12),
        "twins": rng.chance(0.5),
        "table": rng.chance(0.12),
        "const_pairs": rng.choice([0, 4, 8]),
        "mix": [("gen", rng.choice([2, 5])), ("tmpl", rng.choice([3, 5])), ("corpus", rng.choice([0, 1])), ("stdlib", 0)],
    }


ROUTE_STEPS = ["normalize", "code_trip", "json_trip", "pickle_trip", "clone", "deepcopy_data", "marshal_decode", "recompile", "artefact_variant", "hand_edit"]


def run_c08(seed, tree, tier, known):
    rng = prng.PRNG(seed)
    cfg = swarm_c08(rng, tier)
    w = World08(tree, known, tier)
    if cfg["table"]:
        # the finite confusables table, enumerated completely (bare, in tuple, in frozenset, nested)
        exprs = all_table_exprs()
        for i in range(0, len(exprs), 40):
            w.execute({"op": "const_check", "exprs": exprs[i:i + 40] + exprs[:8], "with_clones": False}, rng)
            if w.stop:
                return w, cfg
        w.probes["confusable_table_enumerated"] = 1
    if rng.chance(0.3):
        w.execute({"op": "const_transient", "exprs": transient_exprs(rng), "gc": rng.chance(0.5)}, rng)
        if w.stop:
            return w, cfg
    if cfg["const_pairs"]:
        ex = [zoo_expr(rng) for _ in range(cfg["const_pairs"])]
        fam = rng.choice(workload.CONFUSABLE_FAMILIES + workload.SAME_FAMILIES)
        w.execute({"op": "const_check", "exprs": ex + list(fam)}, rng)
        if w.stop:
            return w, cfg
    if rng.chance(0.15):
        fam = rng.choice(workload.CONFUSABLE_FAMILIES + workload.SAME_FAMILIES)
        w.execute({"op": "stack_pressure", "exprs": [zoo_expr(rng)] + list(rng.sample(fam, min(len(fam), 3)))}, rng)
        if w.stop:
            return w, cfg
    # the program family
    comp_ops = []
    if cfg["twins"]:
        fam = rng.choice(workload.CONFUSABLE_FAMILIES + workload.SAME_FAMILIES)
        tmpl = rng.choice(TWIN_TEMPLATES)
        members = rng.sample(fam, min(len(fam), rng.randint(2, 3)))
        for m in members:
            src = tmpl.replace("%s", m)
            comp_ops.append({"op": "compile", "prog": {"kind": "twin", "name": "twin", "src": src}, "filename": "<sim>", "mode": "exec", "optimize": 0})
        w.probes["twin_family_run"] = 1
    else:
        comp_ops.append(compile_op(rng, tree, tier, cfg["mix"]))
    datas = []
    codes = []
    for cop in comp_ops:
        s = w.execute(cop, rng)
        if s is None:
            continue
        n = s.meta.get("n_code_objects", 1)
        if n > 1 and not cfg["twins"] and rng.chance(0.4):
            s = w.execute({"op": "nested", "in": [s.id], "index": rng.randint(1, n - 1)}, rng) or s
        if not cfg["twins"] and rng.chance(0.3):
            s = w.execute({"op": "graft", "in": [s.id], "append": [zoo_expr(rng) for _ in range(rng.randint(1, 3))],
                           "swap": [[rng.randint(0, 40), zoo_expr(rng)]] if rng.chance(0.5) else []}, rng) or s
        codes.append((s, cop))
        d = w.execute({"op": "from_code", "in": [s.id]}, rng)
        if w.stop:
            return w, cfg
        if d is not None:
            datas.append(d)
            if not hasattr(w, "carry") and s.route == ["compile"] and s.meta.get("w", 0) <= 1500:
                # durable copy for the cross-process stage: hashed first (any per-object hash cache is warm), then pickled
                import base64

                try:
                    hash(d.value)
                    w.carry = {"cop": cop, "pickle": base64.b64encode(pickle.dumps(d.value, 2)).decode("ascii"), "fp": fp.digest(d.snap)}
                except Exception:
                    pass
    if cfg["twins"]:
        w.faults_fired += 1
        w.count("fault_twin")
    steps = 0
    while steps < cfg["routes"] and datas and not w.stop:
        steps += 1
        k = rng.choice(ROUTE_STEPS)
        base = rng.choice(datas)
        if base.id not in w.slots:
            continue
        new = None
        if k == "normalize":
            new = w.execute({"op": "normalize", "in": [base.id]}, rng)
        elif k == "code_trip":
            c = w.execute({"op": "to_code", "in": [base.id]}, rng)
            if c is not None and not w.stop:
                new = w.execute({"op": "from_code", "in": [c.id]}, rng)
        elif k == "json_trip":
            j = w.execute({"op": "to_json_data", "in": [base.id]}, rng)
            if j is not None and not w.stop:
                t = w.execute({"op": "dumps", "in": [j.id], "opts": {"ensure_ascii": rng.chance(0.5), "sort_keys": rng.chance(0.3)}}, rng)
                if t is not None:
                    j2 = w.execute({"op": "loads", "in": [t.id]}, rng)
                    if j2 is not None:
                        new = w.execute({"op": "from_json_data", "in": [j2.id]}, rng)
                        if new is not None:
                            w.faults_fired += 1
                            w.identity_loss += 1
                            w.count("fault_identity_loss_json_trip")
        elif k == "pickle_trip":
            new = w.execute({"op": "pickle_trip", "in": [base.id], "protocol": rng.choice([0, 2, 3, 4])}, rng)
        elif k == "clone":
            new = w.execute({"op": "clone", "in": [base.id]}, rng)
        elif k == "deepcopy_data":
            new = w.execute({"op": "deepcopy_data", "in": [base.id], "how": rng.choice(["deepcopy", "copy"])}, rng)
        elif k == "marshal_decode":
            s, cop = rng.choice(codes)
            if s.id in w.slots:
                c2 = w.execute({"op": "marshal_trip", "in": [s.id]}, rng)
                if c2 is not None:
                    new = w.execute({"op": "from_code", "in": [c2.id]}, rng)
        elif k == "hand_edit":
            new = w.execute({"op": "hand_edit", "in": [base.id], "kind": rng.choice(["append_block", "jump_to_int"])}, rng)
        elif k == "artefact_variant":
            s, cop = rng.choice(codes)
            if s.id in w.slots:
                c2 = w.execute({"op": "artefact_variant", "in": [s.id], "kind": rng.choice(["noarg", "noarg", "nested_flag", "append"]), "seed": rng.next64()}, rng)
                if c2 is not None:
                    new = w.execute({"op": "from_code", "in": [c2.id]}, rng)
        elif k == "recompile":
            s, cop = rng.choice(codes)
            c2 = w.execute(dict(cop), rng)
            if c2 is not None:
                new = w.execute({"op": "from_code", "in": [c2.id]}, rng)
                if new is not None:
                    w.faults_fired += 1
                    w.identity_loss += 1
                    w.count("fault_identity_loss_recompile")
        if new is not None and new.kind == "data":
            datas.append(new)
        if steps == 2 and rng.chance(0.1) and not w.stop:
            small = [d for d in datas if d.id in w.slots and d.meta.get("w", 0) <= 300]
            if small:
                w.execute({"op": "stack_pressure", "in": [rng.choice(small).id], "window": 120}, rng)
        if len(datas) > 3 and rng.chance(0.2) and not w.stop:
            victim = rng.choice(datas[1:])
            datas = [d for d in datas if d.id != victim.id]
            if victim.id in w.slots:
                w.execute({"op": "drop", "in": [victim.id]}, rng)
            del victim
    # (appended after everything else, so that the histories above are the same as before this pass existed)
    first = (codes[0][0].id, codes[0][1]) if codes else None
    codes = datas = s = d = new = base = c = c2 = j = j2 = t = cop = None  # no local may keep the originals alive
    if first is not None and not w.stop:
        variant_with_and_without_live_original(w, rng, first[0], first[1])
    return w, cfg


def variant_with_and_without_live_original(w, rng, sid, cop0):
    """Identical code objects imply equal CodeData, whatever else is alive: a VARIANT of the first program (another
    file name: equal under CPython's code ==, which ignores file name, line table and stack size) is decoded
    while the original and everything decoded from it are alive; then all of those are dropped and the same
    variant code object is decoded again.  Both results enter the pool, where V5 compares them."""
    s0 = w.slots.get(sid)
    if s0 is None or s0.route != ["compile"] or s0.meta.get("n_code_objects", 1) < 2 or s0.meta.get("w", 0) > 3000:
        return
    del s0
    v = w.execute(dict(cop0, filename="<c08-variant>"), rng)
    if v is None or w.stop:
        return
    d2 = w.execute({"op": "from_code", "in": [v.id]}, rng)
    if d2 is None or w.stop:
        return
    keep = (v.id, d2.id)
    del v, d2
    for i in sorted(w.slots):
        if i not in keep and not w.stop:
            w.execute({"op": "drop", "in": [i]}, rng)
    if w.stop:
        return
    d3 = w.execute({"op": "from_code", "in": [keep[0]]}, rng)
    w.count("fault_variant_decoded_with_and_without_live_original")
    w.faults_fired += 1
    d2 = w.slots.get(keep[1])
    if d3 is None or d2 is None or w.stop:
        return
    # the very same code object, decoded twice: the two values must be equal (and hash alike)
    res = sched._outcome(lambda: (d2.value == d3.value, d3.value == d2.value, hash(d2.value) == hash(d3.value)))
    if res[0] != "ok":
        w.violate("V2-eq-raises", "decode~decode-after-originals-dropped", res[1], {})
    elif not (res[1][0] and res[1][1]):
        loc = fp.diff_path(d2.snap, d3.snap) or "?"
        w.violate("V5-same-code-but-unequal", "decode~decode-after-originals-dropped", loc, {"routes": [d2.route, d3.route]})
    elif not res[1][2]:
        w.violate("V4-equal-but-hash-differs", "decode~decode-after-originals-dropped", "CodeData", {})
