"""Engine A run drivers: seeded generation of operation/fault histories for C12 (this file),
C06 and C08 (c06.py, c08.py) on top of world.World.  Runs on 3.7 .. 3.10.
"""
import json
import sys

from . import fp, prng, sched, workload
from .world import API_INPUT_KIND, API_OPS, World

FILENAMES = ["<sim>", "<string>", "mod.py", "/tmp/pkg/mé.py", "中.py", "a\udc80b.py", ""]
ZOO_EXPR_WRAP = ["%s", "(%s, 1)", "frozenset([%s])", "(frozenset([%s, 2]), 'z')", "frozenset([(%s,), 3])", "((%s,),)"]


HUGE = [False]  # set per run: the ambient int<->str digit limit was raised, so ints beyond 4300 digits are legal input


def zoo_expr(rng):
    """Eval-able expression text for a constant to graft by hand (may nest frozensets)."""
    if HUGE[0] and rng.chance(0.25):
        return rng.choice(["10**%d", "-(10**%d)", "(10**%d, 1)", "3**%d"]) % rng.choice([4400, 5000, 5900, 7000, 12000])
    base = workload.const_src(rng, 2)
    w = rng.choice(ZOO_EXPR_WRAP)
    if "frozenset" in w and ("{" in base):
        w = "%s"
    return w % base


def swarm_c12(rng, tier):
    fault_free = rng.chance(0.2)
    kinds = ["scribble", "wipe", "alias", "abort", "preempt", "abort_sweep", "virgin"]
    enabled = [] if fault_free else [k for k in kinds if rng.chance({"abort_sweep": 0.15 if tier == "quick" else 0.4, "virgin": 0.3}.get(k, 0.6))]
    if not fault_free and not enabled:
        enabled = [rng.choice(kinds)]
    cfg = {
        "cap": rng.randint(3, 10),
        "length": rng.randint(8, 40 if tier == "quick" else 60),
        "fault_rate": 0.0 if fault_free else rng.choice([0.08, 0.2, 0.35]),
        "faults": enabled,
        "w": {
            "api": rng.choice([3, 5, 8]),
            "repeat": rng.choice([0, 2, 4, 6]),
            "aux": rng.choice([1, 2, 4]),
            "observe": rng.choice([0, 1, 2]),
            "graft": rng.choice([0, 0, 1]),
            "compile": rng.choice([0, 1, 2]),
        },
        "ref_rate": rng.choice([0.0, 0.05, 0.15, 0.3]),
        "ambient_digits": rng.choice([None, None, None, 0, 6000, 20000]),
        "variants": rng.chance(0.3),
        "threads": rng.choice([2, 2, 3]),
        "p_switch": rng.choice([0.002, 0.01, 0.03, 0.08, 0.2]),
        "mix": [("gen", rng.choice([2, 5])), ("tmpl", rng.choice([2, 4])), ("corpus", rng.choice([0, 1, 2])), ("stdlib", rng.choice([0, 0, 1]))],
    }
    return cfg


def compile_op(rng, tree, tier, mix):
    prog = workload.pick_program(rng, tree, tier, mix)
    return {"op": "compile", "prog": prog, "filename": rng.choice(FILENAMES) if rng.chance(0.3) else "<sim>",
            "mode": "exec", "optimize": rng.choice([0, 0, 0, 1, 2])}


def gen_seed_pool(w, rng, cfg, tree, tier):
    """compile -> (nested) -> from_code -> to_json_data, as ordinary recorded ops."""
    cop = compile_op(rng, tree, tier, cfg["mix"])
    s = w.execute(cop, rng)
    if s is not None and cfg.get("variants"):
        # a VARIANT of the same program: equal under CPython's code == (which ignores file name, line table and
        # stack size) but a different object with a different strict fingerprint; both get decoded, and the
        # variant's result is compared with a pristine library copy (P5)
        w.execute({"op": "from_code", "in": [s.id], "ref": rng.chance(0.5)}, rng)
        if not w.stop:
            v = w.execute(dict(cop, filename=rng.choice(["variant_b.py", "<variant>", "zz/other.py"])), rng)
            if v is not None:
                w.probes["variant_equal_code_different_fingerprint"] = w.probes.get("variant_equal_code_different_fingerprint", 0) + (1 if v.value == s.value and v.snap != s.snap else 0)
                dv = w.execute({"op": "from_code", "in": [v.id], "ref": True}, rng)
                src0 = cop["prog"].get("src")
                if dv is not None and not w.stop and src0 and "-1" in src0:
                    # a twin program that differs in one constant whose hash collides with the original's (-1 / -2):
                    # both are decoded and encoded in this process, the twin against a pristine library (P5)
                    tw = w.execute(dict(cop, prog=dict(cop["prog"], src=src0.replace("-1", "-2"), name="hash-twin")), rng)
                    if tw is not None:
                        for codeslot in (s, tw):
                            dd = w.execute({"op": "from_code", "in": [codeslot.id]}, rng)
                            if dd is not None and not w.stop:
                                w.execute({"op": "to_code", "in": [dd.id], "ref": True}, rng)
                        w.count("fault_hash_colliding_twin_program")
        if w.stop:
            return
    if s is None:
        s = w.execute({"op": "compile", "prog": {"kind": "tmpl", "name": "fallback", "src": "def f(a, *b, c=1, **d):\n    'doc'\n    return a in {1, 2.5}\n"}}, rng)
    n = s.meta.get("n_code_objects", 1)
    if n > 1 and rng.chance(0.5):
        s2 = w.execute({"op": "nested", "in": [s.id], "index": rng.randint(1, n - 1)}, rng)
        s = s2 or s
    if rng.chance(0.25):
        gop = {"op": "graft", "in": [s.id], "append": [zoo_expr(rng) for _ in range(rng.randint(1, 3))],
               "swap": [[rng.randint(0, 40), zoo_expr(rng)]] if rng.chance(0.4) else []}
        if rng.chance(0.15):
            gop["junk_tail"] = rng.randint(0, 100)
        g = w.execute(gop, rng)
        s = g or s
    d = w.execute({"op": "from_code", "in": [s.id]}, rng)
    if d is not None and not w.stop:
        w.execute({"op": "to_json_data", "in": [d.id]}, rng)


def pick_api(w, rng):
    cands = []
    for name in API_OPS:
        for s in w.live(API_INPUT_KIND[name]):
            cands.append((name, s.id))
    if rng.chance(0.12):
        # a document a hostile caller scribbled on: usually malformed, so the LIBRARY raises; what matters is that
        # everything else keeps behaving afterwards (state must not survive the library's own exceptions)
        bad = [s for s in w.live("doc", usable=False) if s.tainted]
        if bad:
            w.count("fault_malformed_document_loaded")
            w.faults_fired += 1
            return {"op": "from_json_data", "in": [rng.choice(bad).id], "malformed": True}
    if not cands:
        return None
    name, sid = rng.choice(cands)
    return {"op": name, "in": [sid]}


def pick_repeat(w, rng):
    keys = [k for k in sorted(w.first_result) if all(i in w.slots and not w.slots[i].tainted for i in k[1]) and k[0] in API_INPUT_KIND]
    if not keys:
        return None
    name, ins = rng.choice(keys)
    return {"op": name, "in": list(ins)}


TRACE_WEIGHT_CAP = {"quick": 500, "thorough": 4000}


def pick_call(w, rng, prefer_doc=True):
    """A call spec for abort/preempt: biased to from_json_data / to_json_data on shared args.
    Traced calls cost ~10us per line event, so they are placed on objects of bounded size."""
    cands = []
    cap = TRACE_WEIGHT_CAP.get(w.tier, 500)
    for name in API_OPS:
        for s in w.live(API_INPUT_KIND[name]):
            if s.meta.get("w", 0) > cap:
                continue
            wgt = 3 if name in ("from_json_data", "to_json_data") else 1
            cands.append(((name, s.id), wgt))
    if not cands:
        return None
    name, sid = rng.weighted(cands)
    return {"op": name, "in": [sid]}


def gen_fault(w, rng, cfg):
    k = rng.choice(cfg["faults"])
    if k in ("scribble", "wipe"):
        docs = w.live("doc")
        if not docs:
            return None
        lib = [s for s in docs if s.made_by_lib]
        s = rng.choice(lib) if lib and rng.chance(0.7) else rng.choice(docs)
        if k == "wipe":
            return {"op": "scribble", "in": [s.id], "wipe": True}
        if rng.chance(0.35):
            w._pending_malformed = s.id  # load the nearly-valid document right away
            return {"op": "scribble", "in": [s.id], "dropkey": rng.randint(0, 10 ** 6), "edits": []}
        edits = [[rng.randint(0, 500), rng.choice(["set", "del", "replace", "other"]), rng.randint(0, 50)] for _ in range(rng.randint(1, 4))]
        return {"op": "scribble", "in": [s.id], "edits": edits}
    if k == "alias":
        docs = [s for s in w.live("doc") if isinstance(s.value, dict)]
        if not docs:
            return None
        return {"op": "alias", "in": [rng.choice(docs).id]}
    if k == "abort":
        spec = pick_call(w, rng)
        if spec is None:
            return None
        exc = rng.weighted([("SimAbort", 3), ("KeyboardInterrupt", 2), ("MemoryError", 2), ("OSError", 1), ("RecursionError", 2)])
        op = {"op": "abort", "call": spec, "exc": exc}
        if exc == "RecursionError":
            op["headroom"] = rng.randint(5, 40)
        return op
    if k == "virgin":
        cands = []
        for name in API_OPS:
            for s in w.live(API_INPUT_KIND[name]):
                if s.meta.get("w", 0) <= 400:
                    cands.append((name, s.id))
        if not cands:
            return None
        name, sid = rng.choice(cands)
        if rng.chance(0.6):
            return {"op": "virgin", "how": "abort", "call": {"op": name, "in": [sid]}, "trials": rng.randint(2, 5),
                    "exc": rng.choice(["KeyboardInterrupt", "SimAbort", "MemoryError"])}
        return {"op": "virgin", "how": "preempt", "call": {"op": name, "in": [sid]}, "p": rng.choice([0.02, 0.1, 0.3]), "first": rng.randint(0, 1)}
    if k == "abort_sweep":
        # crash-point enumeration on a SMALL call: every line (thorough) or every 5th..9th line (quick)
        cands = []
        for name in API_OPS:
            for s in w.live(API_INPUT_KIND[name]):
                if s.meta.get("w", 0) <= (40 if w.tier == "quick" else 160):
                    cands.append((name, s.id))
        if not cands:
            return None
        name, sid = rng.choice(cands)
        stride = rng.choice([5, 7, 9]) if w.tier == "quick" else rng.choice([1, 1, 2, 3])
        return {"op": "abort_sweep", "call": {"op": name, "in": [sid]}, "stride": stride, "offset": rng.randint(1, stride), "max_points": 150 if w.tier == "quick" else 400,
                "exc": rng.choice(["SimAbort", "KeyboardInterrupt", "MemoryError"])}
    if k == "preempt":
        n = cfg["threads"]
        calls = []
        first = pick_call(w, rng)
        if first is None:
            return None
        calls.append(first)
        for _ in range(n - 1):
            if rng.chance(0.6):
                calls.append(dict(first))  # deliberately the same call on the same slot
            else:
                c = pick_call(w, rng)
                calls.append(c or dict(first))
        return {"op": "preempt", "calls": calls, "p": cfg["p_switch"], "first": rng.randint(0, n - 1)}
    return None


def gen_step(w, rng, cfg, tree, tier):
    pm = getattr(w, "_pending_malformed", None)
    if pm is not None:
        w._pending_malformed = None
        if pm in w.slots and w.slots[pm].kind == "doc":
            w.count("fault_malformed_document_loaded")
            w.faults_fired += 1
            return {"op": "from_json_data", "in": [pm], "malformed": True}
    queue = getattr(w, "_pending_ops", None)
    while queue:
        op = queue.pop(0)
        if op.get("in") == ["last"]:
            last = max(w.slots) if w.slots else None
            if last is None or w.slots[last].route[-1:] != ["respell"]:
                continue
            op = dict(op, **{"in": [last]})
        if op.get("op") == "repeat_to_json_data":
            keys = [k for k in sorted(w.first_result) if k[0] == "to_json_data" and all(i in w.slots and not w.slots[i].tainted for i in k[1])]
            if not keys:
                continue
            return {"op": "to_json_data", "in": list(rng.choice(keys)[1])}
        if all(i in w.slots for i in op.get("in", [])):
            return op
    pend = getattr(w, "_pending_edit", None)
    if pend is not None:
        # the freshly edited data is encoded twice in a row (P2 needs the same call on the same argument)
        sid, left = pend
        w._pending_edit = (sid, left - 1) if left > 1 else None
        last = max(w.slots) if w.slots else None
        if last is not None and w.slots[last].route[-1:] == ["edit_posonly"]:
            w._edit_slot = last
        es = getattr(w, "_edit_slot", None)
        if es in w.slots:
            return {"op": "to_code", "in": [es]}
    if cfg["faults"] and rng.chance(cfg["fault_rate"]):
        op = gen_fault(w, rng, cfg)
        if op is not None:
            return op
    wt = cfg["w"]
    k = rng.weighted([("api", wt["api"]), ("repeat", wt["repeat"]), ("aux", wt["aux"]), ("observe", wt["observe"]),
                      ("graft", wt["graft"]), ("compile", wt["compile"])])
    if k == "repeat":
        op = pick_repeat(w, rng)
        if op is not None:
            return op
        k = "api"
    if k == "aux":
        docs = w.live("doc")
        texts = w.live("text")
        c = []
        if docs:
            c += ["dumps", "dumps", "deepcopy"]
        if texts:
            c += ["loads", "loads"]
        lib_docs = [d for d in docs if d.made_by_lib and not d.tainted and d.meta.get("w", 0) <= 3000 and '{"string"' in json.dumps(d.value)] if docs and rng.chance(0.5) else []
        if lib_docs:
            # a foreign spelling of the same document is loaded, then an EARLIER to_json_data call is re-issued
            w._pending_ops = [{"op": "from_json_data", "in": ["last"]}, {"op": "repeat_to_json_data"}]
            return {"op": "respell", "in": [rng.choice(lib_docs).id], "style": rng.choice(["escape", "repr", "double"])}
        if c:
            a = rng.choice(c)
            if a == "dumps":
                return {"op": "dumps", "in": [rng.choice(docs).id],
                        "opts": {"ensure_ascii": rng.chance(0.5), "sort_keys": rng.chance(0.3), "indent": rng.chance(0.2), "compact": rng.chance(0.3)}}
            if a == "deepcopy":
                return {"op": "deepcopy", "in": [rng.choice(docs).id]}
            return {"op": "loads", "in": [rng.choice(texts).id]}
        k = "api"
    if k == "observe":
        datas = w.live("data")
        if datas:
            s = rng.choice(datas)
            what = rng.choice(["repr", "hash", "iter", "all", "eq", "params", "pickle"])
            ins = [s.id]
            if what == "eq" and len(datas) > 1:
                ins.append(rng.choice(datas).id)
            return {"op": "observe", "in": ins, "what": what}
        k = "api"
    if k in ("graft", "observe") and rng.chance(0.3):
        fn = [s for s in w.live("data") if s.value.type is not None and s.value.type.args.positional_or_keyword]
        if fn:
            w._pending_edit = (None, 2)
            return {"op": "edit_posonly", "in": [rng.choice(fn).id]}
    if k == "graft":
        codes = w.live("code")
        if codes:
            return {"op": "graft", "in": [rng.choice(codes).id], "append": [zoo_expr(rng) for _ in range(rng.randint(1, 3))],
                    "swap": [[rng.randint(0, 40), zoo_expr(rng)]] if rng.chance(0.4) else []}
        k = "api"
    if k == "compile":
        return compile_op(rng, tree, tier, cfg["mix"])
    op = pick_api(w, rng)
    if op is None:
        return compile_op(rng, tree, tier, cfg["mix"])
    if cfg.get("ref_rate") and rng.chance(cfg["ref_rate"]) and w.slots[op["in"][0]].meta.get("w", 0) <= 3000:
        op["ref"] = True
    return op


def evict_if_needed(w, rng, cfg):
    while len(w.slots) > cfg["cap"]:
        ids = sorted(w.slots)
        texts = [i for i in ids if w.slots[i].kind == "text" or w.slots[i].tainted]
        victim = rng.choice(texts) if texts and rng.chance(0.6) else rng.choice(ids)
        w.execute({"op": "evict", "in": [victim]}, rng)


def run_c12(seed, tree, tier, known):
    rng = prng.PRNG(seed)
    cfg = swarm_c12(rng, tier)
    w = World(tree, known, tier)
    HUGE[0] = False
    try:
        if cfg.get("ambient_digits") is not None and hasattr(sys, "set_int_max_str_digits"):
            w.execute({"op": "ambient", "int_max_str_digits": cfg["ambient_digits"]}, rng)
            HUGE[0] = True
            cfg["w"]["graft"] = max(cfg["w"]["graft"], 2)
        gen_seed_pool(w, rng, cfg, tree, tier)
        steps = 0
        while steps < cfg["length"] and not w.stop:
            steps += 1
            op = gen_step(w, rng, cfg, tree, tier)
            w.execute(op, rng)
            evict_if_needed(w, rng, cfg)
        if not w.stop:
            w._cur_inputs = set()
            w.check_all_unchanged("end-of-run")
    finally:
        HUGE[0] = False
        w.restore_ambient()
    return w, cfg


def replay_ops(prop, ops, tree, tier, known):
    """Literal replay of a recorded op list (no PRNG)."""
    w = make_world(prop, tree, known, tier)
    try:
        for op in ops:
            if op.get("skipped"):
                continue
            op2 = {k: v for k, v in op.items() if k not in ("skipped",)}
            w.execute(op2, None)
            if w.stop:
                break
    finally:
        w.restore_ambient()
    if not w.stop and prop == "C12":
        w._cur_inputs = set()
        w.check_all_unchanged("end-of-run")
    if hasattr(w, "finish") and not w.stop:
        w.finish()
    return w


def make_world(prop, tree, known, tier):
    if prop == "C12":
        return World(tree, known, tier)
    if prop == "C06":
        from .c06 import World06

        return World06(tree, known, tier)
    if prop == "C08":
        from .c08 import World08

        return World08(tree, known, tier)
    raise ValueError(prop)


def run_one(prop, seed, tree, tier, known):
    if prop == "C12":
        return run_c12(seed, tree, tier, known)
    if prop == "C06":
        from .c06 import run_c06

        return run_c06(seed, tree, tier, known)
    if prop == "C08":
        from .c08 import run_c08

        return run_c08(seed, tree, tier, known)
    raise ValueError(prop)


def summarize(w, cfg, seed, index, keep_ops):
    nontrivial = w.api_ops >= 3 and w.faults_fired >= 1
    out = {
        "run": index, "seed": seed, "digest": w.digest(), "n_ops": len(w.ops), "api_ops": w.api_ops,
        "faults_fired": w.faults_fired, "nontrivial": nontrivial, "fault_free": not (cfg or {}).get("faults"),
        "counters": w.counters, "probes": w.probes, "violations": w.violations,
        "sig": fp.digest(tuple(w.sig)), "switch_digest": w.switch_digest.hexdigest()[:16] if w.n_switches else None,
        "pool_sig": fp.digest(tuple(sorted((s.kind, tuple(s.route)) for s in w.slots.values()))),
    }
    if keep_ops or w.violations:
        out["ops"] = w.ops
        out["cfg"] = cfg
    if getattr(w, "carry", None) and not w.violations:
        out["carry"] = dict(w.carry, run=index)
    return out


def run_batch(job, tree):
    """All runs of one batch in this (fresh) process; returns compact per-run rows, merged
    counters, and full op lists only for violating / sampled runs."""
    rows = []
    counters = {}
    probes = {}
    violating = []
    samples = []
    carry = []
    keep = set(job.get("keep_ops_for", []))
    for index, seed in job["runs"]:
        w, cfg = run_one(job["prop"], seed, tree, job["tier"], job.get("known", []))
        s = summarize(w, cfg, seed, index, index in keep)
        rows.append([index, s["digest"], s["sig"], s["pool_sig"], s["switch_digest"], 1 if s["nontrivial"] else 0,
                     1 if s["fault_free"] else 0, s["api_ops"], s["n_ops"], s["faults_fired"]])
        for k, v in s["counters"].items():
            counters[k] = counters.get(k, 0) + v
        for k, v in s["probes"].items():
            probes[k] = probes.get(k, 0) + v
        if s.get("carry") and len(carry) < job.get("carry_max", 3):
            carry.append(s["carry"])
        if s["violations"]:
            violating.append(s)
        elif index in keep:
            samples.append({"run": index, "seed": seed, "cfg": cfg, "ops": compact_ops(s["ops"])})
    return {"rows": rows, "counters": counters, "probes": probes, "violating": violating, "samples": samples, "carry": carry}


def compact_ops(ops, limit=40):
    out = []
    for op in ops[:limit]:
        o = dict(op)
        if "prog" in o and "src" in o["prog"] and len(o["prog"]["src"]) > 400:
            o["prog"] = dict(o["prog"], src=o["prog"]["src"][:400] + "...<truncated>")
        if "switches" in o and len(o["switches"]) > 12:
            o["switches"] = o["switches"][:12] + ["...%d more" % (len(o["switches"]) - 12)]
        out.append(o)
    if len(ops) > limit:
        out.append("...%d more ops" % (len(ops) - limit))
    return out
