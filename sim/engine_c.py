"""Engine C -- the header-fault store (C11).  Runs in-process on CPython 3.7 .. 3.10.

The "store" holds base code objects.  Between write and read the simulator alters ONE header
word (a flag bit, a multi-bit flag mask, an argument count, a swap of counts, or a seeded
combination).  Oracle (the property's own): from_code RAISES, or to_code() of the result
reproduces co_flags, the three counts and every other header field EXACTLY.  For flag words
alone: from_flags_data(to_flags_data(w)) == w, or to_flags_data(w) raises.
"""
import sys
import types

from . import fp, prng, sched, workload
from .world import replace_code

HEADER = fp.HEADER_FIELDS
HAS_POSONLY = sys.version_info >= (3, 8)


def known_flag_bits():
    from code_data import _flags_data

    bits = {}
    for m in _flags_data._CodeFlag:
        v = int(m)
        if v and v & (v - 1) == 0:
            bits[v.bit_length() - 1] = m.name
    return bits


def header(c):
    return tuple((f, getattr(c, f)) for f in HEADER if hasattr(c, f))


def header_rec(c, prefix=""):
    """Header fields of c and, recursively, of every code object in its constant table."""
    out = [(prefix + f, v) for f, v in header(c)]
    n = 0
    for k in c.co_consts:
        if hasattr(k, "co_code"):
            out.extend(header_rec(k, prefix + "nested."))
            n += 1
    return out


def alter(c, alt):
    """Apply one alteration; returns new code object or None when CPython refuses to build it."""
    kw = {}
    kind = alt[0]
    if kind == "flag-sign":
        kw["co_flags"] = c.co_flags - (1 << 31) if c.co_flags >= 0 else c.co_flags + (1 << 31)
    elif kind in ("flag-bit", "flag-mask"):
        kw["co_flags"] = c.co_flags ^ alt[1]
    elif kind == "count":
        field, delta = alt[1], alt[2]
        if not hasattr(c, field):
            return None
        kw[field] = getattr(c, field) + delta
    elif kind == "swap":
        a, b = alt[1], alt[2]
        if not hasattr(c, a) or not hasattr(c, b):
            return None
        kw[a], kw[b] = getattr(c, b), getattr(c, a)
        if kw[a] == getattr(c, a):
            return None
    elif kind == "nested":
        consts = list(c.co_consts)
        idxs = [i for i, k in enumerate(consts) if hasattr(k, "co_code")]
        if not idxs:
            return None
        i = idxs[alt[1] % len(idxs)]
        k = consts[i]
        field = alt[2]
        try:
            if field == "co_flags_unknown":
                k2 = replace_code(k, co_flags=k.co_flags | 0x800)
            elif field == "co_filename":
                k2 = replace_code(k, co_filename=k.co_filename + ".other")
            elif field == "co_name":
                k2 = replace_code(k, co_name=k.co_name + "_zz")
            else:
                k2 = replace_code(k, co_firstlineno=k.co_firstlineno + 7)
        except (ValueError, TypeError):
            return None
        consts[i] = k2
        kw["co_consts"] = tuple(consts)
    elif kind == "varname":
        vs = list(c.co_varnames)
        if alt[1] >= len(vs) or vs[alt[1]] == alt[2]:
            return None
        vs[alt[1]] = alt[2]
        kw["co_varnames"] = tuple(vs)
    elif kind == "combo":
        kw["co_flags"] = c.co_flags ^ alt[1]
        if hasattr(c, alt[2]):
            kw[alt[2]] = getattr(c, alt[2]) + alt[3]
    else:
        raise ValueError(alt)
    for k, v in kw.items():
        if k != "co_flags" and isinstance(v, int) and not isinstance(v, bool) and v < 0:
            return None
    try:
        return replace_code(c, **kw)
    except (ValueError, TypeError, OverflowError, SystemError):
        return None


def alt_class(alt, known_bits):
    kind = alt[0]
    if kind == "flag-sign":
        return "flag-bit-unknown"
    if kind == "flag-bit":
        b = alt[1].bit_length() - 1
        return "flag-bit-known:" + known_bits[b] if b in known_bits else "flag-bit-unknown"
    if kind == "flag-mask":
        unknown = [i for i in range(32) if (alt[1] >> i) & 1 and i not in known_bits]
        return "flag-mask-with-unknown" if unknown else "flag-mask-known"
    if kind == "count":
        return "count:" + alt[1]
    if kind == "swap":
        return "swap:%s/%s" % (alt[1], alt[2])
    if kind == "nested":
        return "nested:" + alt[2]
    if kind == "varname":
        return "varname:empty" if alt[2] == "" else "varname:duplicate"
    return "combo"


def judge(c2):
    """-> (verdict, location).  verdict in raises / exact / VIOLATION kinds."""
    import code_data

    out = sched._outcome(lambda: code_data.CodeData.from_code(c2))
    if out[0] != "ok":
        return "raises:" + out[1], None
    data = out[1]
    out2 = sched._outcome(lambda: data.to_code())
    if out2[0] != "ok":
        return "lossy", "to_code-raises:" + out2[1]
    return compare_headers(c2, out2[1])


def compare_headers(c2, enc):
    h1, h2 = header_rec(c2), header_rec(enc)
    if h1 == h2:
        return "exact", None
    if len(h1) != len(h2):
        return "lossy", "nested-code-count"
    diff = []
    for a, b in zip(h1, h2):
        if a != b and a[0] not in diff:
            diff.append(a[0])
    return "lossy", ",".join(diff)


def alterations_for(c, rng, known_bits, n_masks, n_combo):
    alts = [("flag-bit", 1 << b) for b in range(31)]
    alts.append(("flag-sign", 0))  # bit 31: the flag word as a negative C int (3.7's constructor accepts it)
    for _ in range(n_masks):
        k = rng.randint(2, 6)
        bits = set()
        while len(bits) < k:
            # biased to mix known and unknown bits
            if rng.chance(0.5):
                bits.add(rng.choice(sorted(known_bits)))
            else:
                bits.add(rng.randint(0, 30))
        alts.append(("flag-mask", sum(1 << b for b in bits)))
    fields = ["co_argcount", "co_kwonlyargcount"] + (["co_posonlyargcount"] if HAS_POSONLY else [])
    for f in fields:
        for d in (-2, -1, 1, 2, 3):
            alts.append(("count", f, d))
    for i in range(len(fields)):
        for j in range(i + 1, len(fields)):
            alts.append(("swap", fields[i], fields[j]))
    # the other numeric header words ("every other header field exactly")
    for f, deltas in (("co_nlocals", (-1, 1, 2)), ("co_stacksize", (-1, 1, 40)), ("co_firstlineno", (-1, 1, 1000))):
        for d in deltas:
            alts.append(("count", f, d))
    for _ in range(n_combo):
        alts.append(("combo", 1 << rng.randint(0, 30), rng.choice(fields), rng.choice([-1, 1, 2])))
    # parameter NAMES altered by hand: a duplicate, an empty name (CPython accepts both in a code object)
    np_ = c.co_argcount + c.co_kwonlyargcount + bool(c.co_flags & 4) + bool(c.co_flags & 8)
    if np_ >= 1:
        alts.append(("varname", rng.randint(0, np_ - 1), ""))
        alts.append(("varname", np_ - 1, ""))
    if np_ >= 2:
        i = rng.randint(1, np_ - 1)
        alts.append(("varname", i, c.co_varnames[rng.randint(0, i - 1)]))
    if len(c.co_varnames) > np_ >= 1:
        # a plain local that repeats a parameter's (or another local's) name
        j = rng.randint(np_, len(c.co_varnames) - 1)
        alts.append(("varname", j, c.co_varnames[rng.randint(0, j - 1)]))
        alts.append(("varname", j, c.co_varnames[np_ - 1]))
    # a header field of a NESTED code object altered (the parent's own header is untouched)
    if any(hasattr(k, "co_code") for k in c.co_consts):
        for field in ("co_filename", "co_name", "co_firstlineno", "co_flags_unknown"):
            alts.append(("nested", rng.randint(0, 20), field))
        # ... and on the LAST nested code constant (nothing after it in the table)
        alts.append(("nested", -1, "co_flags_unknown"))
    # both function flags cleared at once (a single-bit flip never reaches the non-function branch with arguments)
    if (c.co_flags & 3) == 3:
        alts.append(("flag-mask", 3))
    return alts


CONVERSION_FILES = ("_flags_data.py", "_args.py")


def interrupted_history(pairs, res, prog, optimize):
    """History dimension with faults: an encode/decode of base object B is interrupted at EVERY line inside the
    flag / argument-count conversion code; afterwards the unaltered base objects A and B must still decode and
    re-encode with their exact headers (the store's verdict may not depend on an interrupted earlier call)."""
    import code_data

    CD = code_data.CodeData
    for (ia, a), (ib, b) in pairs:
        if judge(a)[0] != "exact" or judge(b)[0] != "exact":
            continue  # not a clean control: ordinary violations are reported by the caller
        db = sched._outcome(lambda: CD.from_code(b))
        if db[0] != "ok":
            continue
        for what, thunk in (("to_code", lambda: db[1].to_code()), ("from_code", lambda: CD.from_code(b))):
            n, _ = sched.count_lines(thunk, only_files=CONVERSION_FILES)
            for k in range(1, min(n, 60) + 1):
                fired, where, out = sched.run_with_abort(thunk, k, "KeyboardInterrupt", only_files=CONVERSION_FILES)
                if not fired:
                    continue
                res["interrupt_points"] = res.get("interrupt_points", 0) + 1
                for idx, c in ((ib, b), (ia, a)):
                    verdict, loc = judge(c)
                    if verdict != "exact":
                        fpr = "C11/H2-lossy-after-interrupted-call/%s/%s" % (what, loc if verdict == "lossy" else verdict.split(":")[0] + ":" + verdict.split(":")[-1])
                        res["violations"].append({"property": "C11", "fingerprint": fpr, "invariant": "H2-lossy-after-interrupted-call", "interrupted": what, "k": k,
                                                  "where": list(where) if where else None, "object_index": idx, "object_name": c.co_name, "prog": prog, "optimize": optimize,
                                                  "history": True})
                        return
    return


def unsupported_feature_probe(idx, c, res, prog, optimize):
    """A feature the data model covers but this HOST may not: positional-only parameters.  The data of a function
    with at least one positional parameter is edited (dataclasses.replace, as docs/example_modify.md does) to make
    the first one positional-only; on 3.7 to_code() must raise, on 3.8+ the count must appear in the header."""
    import dataclasses

    import code_data

    out = sched._outcome(lambda: code_data.CodeData.from_code(c))
    if out[0] != "ok" or out[1].type is None or not out[1].type.args.positional_or_keyword:
        return
    data = out[1]
    a = data.type.args
    a2 = dataclasses.replace(a, positional_only=a.positional_only + a.positional_or_keyword[:1], positional_or_keyword=a.positional_or_keyword[1:])
    d2 = dataclasses.replace(data, type=dataclasses.replace(data.type, args=a2))
    enc = sched._outcome(lambda: d2.to_code())
    res["unsupported_feature_probes"] = res.get("unsupported_feature_probes", 0) + 1
    bad = None
    if sys.version_info < (3, 8):
        if enc[0] == "ok":
            bad = "positional-only-on-3.7/returned-code"
    elif enc[0] != "ok":
        bad = "positional-only/to_code-raises:" + enc[1]
    elif enc[1].co_posonlyargcount != len(a2.positional_only) or enc[1].co_argcount != c.co_argcount:
        bad = "positional-only/counts"
    if bad:
        res["violations"].append({"property": "C11", "fingerprint": "C11/H3-unrepresentable-feature-silently-dropped/" + bad, "invariant": "H3-unrepresentable-feature-silently-dropped",
                                  "object_index": idx, "object_name": c.co_name, "prog": prog, "optimize": optimize, "history": True})


def run_store(seed, tree, tier, known, keep_sample=False):
    """One run: one seeded program; every code object in it is a base object."""
    import code_data

    rng = prng.PRNG(seed)
    known_bits = known_flag_bits()
    mix = [("tmpl", 6), ("gen", 3), ("corpus", 1 if tier == "quick" else 2), ("stdlib", 0 if tier == "quick" else 1)]
    prog = workload.pick_program(rng, tree, tier, mix)
    src = workload.program_source(prog, tree)
    optimize = rng.choice([0, 0, 1, 2])
    code = workload.try_compile(src, "<store>", "exec", optimize)
    res = {"seed": seed, "tested": 0, "rejected_by_cpython": 0, "raises": 0, "exact": 0, "violations": [], "classes": {}, "bits_unknown_hit": {}, "objects": 0,
           "distinct_keys": [], "verdicts": {}}
    if code is None:
        return res
    cos = workload.all_code_objects(code)
    cap = 12 if tier == "quick" else 60
    if len(cos) > cap:
        idxs = sorted(rng.sample(list(range(len(cos))), cap))
    else:
        idxs = list(range(len(cos)))
    n_masks = 6 if tier == "quick" else 16
    n_combo = 4 if tier == "quick" else 12
    sample = None
    remembered = []
    held = []
    for idx in idxs:
        c = cos[idx]
        if len(held) < 6:
            # data the store handed out BEFORE the alterations below are judged; it is encoded only afterwards
            # (decode A, have altered B..Z refused or accepted, then encode A's data: H4)
            first = sched._outcome(lambda: code_data.CodeData.from_code(c))
            if first[0] == "ok":
                held.append((idx, c, first[1]))
        base_digest = fp.digest(fp.code_fp(c))
        res["objects"] += 1
        alts = alterations_for(c, rng, known_bits, n_masks, n_combo)
        n_ok = 0
        for alt in alts:
            c2 = alter(c, alt)
            if c2 is None:
                res["rejected_by_cpython"] += 1
                continue
            res["tested"] += 1
            n_ok += 1
            cls = alt_class(alt, known_bits)
            verdict, loc = judge(c2)
            if len(remembered) < 8 and verdict != "lossy" and (verdict.startswith("raises") or rng.chance(0.05)):
                remembered.append((idx, alt, c2, verdict))
            res["classes"][cls] = res["classes"].get(cls, 0) + 1
            vk = verdict.split(":")[0]
            res["verdicts"][vk] = res["verdicts"].get(vk, 0) + 1
            if alt[0] == "flag-sign":
                res["bits_unknown_hit"]["31"] = res["bits_unknown_hit"].get("31", 0) + 1
            if alt[0] == "flag-bit" and cls == "flag-bit-unknown":
                b = str(alt[1].bit_length() - 1)
                res["bits_unknown_hit"][b] = res["bits_unknown_hit"].get(b, 0) + 1
            if verdict == "lossy":
                fpr = "C11/H1-silently-lossy/%s/%s" % (cls, loc)
                v = {"property": "C11", "fingerprint": fpr, "invariant": "H1-silently-lossy", "alteration": list(alt), "class": cls, "location": loc,
                     "object_index": idx, "object_name": c.co_name, "prog": prog if "src" in prog else dict(prog), "optimize": optimize,
                     "base_flags": c.co_flags}
                res["violations"].append(v)
            if keep_sample and sample is None and verdict != "lossy" and alt[0] != "flag-bit":
                sample = {"program": prog.get("name"), "object": c.co_name, "base_header": [list(x) for x in header(c) if x[0] in ("co_flags", "co_argcount", "co_kwonlyargcount", "co_posonlyargcount")],
                          "alteration": list(alt), "class": cls, "verdict": verdict}
        res["distinct_keys"].append([base_digest, n_ok])
        if c.co_argcount > getattr(c, "co_posonlyargcount", 0) and (c.co_flags & 3) == 3 and res.get("unsupported_feature_probes", 0) < 3:
            unsupported_feature_probe(idx, c, res, prog if "src" in prog else dict(prog), optimize)
    check_held(held, res, prog, optimize, "after-alterations")
    # interrupted-history pass on consecutive base objects (module/function pairs differ in flags)
    small = [i for i in idxs if len(cos[i].co_code) <= 400 and sum(1 for k in cos[i].co_consts if hasattr(k, "co_code")) <= 2]
    pairs = []
    npairs = 1 if tier == "quick" else 3
    for ib in small:
        # partner with DIFFERENT flags: a stale entry of a flags memo is only visible across different words
        ia = next((i for i in small if cos[i].co_flags != cos[ib].co_flags), None)
        if ia is not None:
            pairs.append(((ia, cos[ia]), (ib, cos[ib])))
        if len(pairs) >= npairs:
            break
    if pairs and (tier != "quick" or rng.chance(0.3)):
        interrupted_history(pairs, res, prog if "src" in prog else dict(prog), optimize)
        # verdicts reached BEFORE the interruptions must still be reached after them
        for idx, alt, c2, verdict in remembered:
            again, loc = judge(c2)
            res["rejudged_after_interruptions"] = res.get("rejudged_after_interruptions", 0) + 1
            if again.split(":")[0] != verdict.split(":")[0]:
                res["violations"].append({"property": "C11", "fingerprint": "C11/H2-verdict-changed-after-interrupted-call/%s/%s->%s" % (alt_class(alt, known_bits), verdict.split(":")[0], again.split(":")[0]),
                                          "invariant": "H2-verdict-changed-after-interrupted-call", "alteration": list(alt), "object_index": idx, "prog": prog if "src" in prog else dict(prog),
                                          "optimize": optimize, "history": True})
                break
        check_held(held, res, prog, optimize, "after-interruptions")
    if sample:
        res["sample"] = sample
    return res


def check_held(held, res, prog, optimize, when):
    """H4: data returned by from_code EARLIER (before other, altered objects were refused or accepted, before
    interrupted calls) must still encode to exactly the header it was decoded from."""
    for idx, c, data in held:
        enc = sched._outcome(lambda: data.to_code())
        res["held_data_encodes"] = res.get("held_data_encodes", 0) + 1
        if enc[0] != "ok":
            verdict, loc = "lossy", "to_code-raises:" + enc[1]
        else:
            verdict, loc = compare_headers(c, enc[1])
        if verdict != "exact":
            res["violations"].append({"property": "C11", "fingerprint": "C11/H4-held-data-encodes-differently-later/%s/%s" % (when, loc),
                                      "invariant": "H4-held-data-encodes-differently-later", "object_index": idx, "object_name": c.co_name,
                                      "prog": prog if "src" in prog else dict(prog), "optimize": optimize, "history": True})
            return


def flag_word_pass(seed, tier, spec):
    """Flag words alone.  `spec` says which subsets of the known flags this (fresh) process
    converts: {"kind": "range", lo, hi} = subset indices lo..hi-1 of the 2^n (exhaustive when the
    hub covers 0..2^n), {"kind": "lowweight", part, parts} = every subset with <= 3 flags set or
    <= 3 flags clear, {"kind": "sample", n, salt} = seeded sample.  With spec["mixed"], every single
    unknown bit and seeded known/unknown mixtures too -- each judged twice, cold and warm.

    (IntFlag conversions slow down quadratically with the number of distinct words a process has
    seen on 3.7/3.8 - the pseudo-member cache is process-global - hence the slicing.)"""
    from code_data import _flags_data

    known_bits = known_flag_bits()
    kb = sorted(known_bits)
    n = len(kb)
    rng = prng.PRNG(prng.derive(seed, "flagwords", repr(sorted(spec.items()))))
    total = 1 << n
    if spec["kind"] == "range":
        idxs = range(spec["lo"], min(spec["hi"], total))
    elif spec["kind"] == "lowweight":
        low = [i for i in range(total) if bin(i).count("1") <= 3 or bin(i).count("1") >= n - 3]
        idxs = low[spec["part"]::spec["parts"]]
    else:
        idxs = [rng.below(total) for _ in range(spec["n"])]
    exhaustive = spec["kind"] == "range"

    def word_of(i):
        w = 0
        for j in range(n):
            if (i >> j) & 1:
                w |= 1 << kb[j]
        return w

    unknown = [b for b in range(31) if b not in known_bits]
    res = {"known_words": 0, "unknown_words": 0, "violations": [], "n_known_flags": n, "exhaustive_known": exhaustive, "cold_warm_disagreements": 0,
           "unknown_bits": unknown, "lossless": 0, "raised": 0}

    def verdict(w):
        out = sched._outcome(lambda: _flags_data.to_flags_data(w))
        if out[0] != "ok":
            return ("raises", out[1])
        names = out[1]
        back = sched._outcome(lambda: _flags_data.from_flags_data(set(names)))
        # hostile caller: the returned set is the caller's to edit; a later conversion must not see the edit
        try:
            names.add("NESTED")
            names.add("zz_scribbled")
        except AttributeError:
            pass
        if back[0] != "ok":
            return ("back-raises", back[1])
        return ("ok", back[1])

    # cold: unknown-bit words first (before from_flags_data has populated the IntFlag pseudo-member cache)
    mixed = [0, 0]  # the empty word (twice: the second conversion follows a scribble on the first result)
    if spec.get("mixed"):
        for b in unknown:
            mixed.append(1 << b)
            mixed.append((1 << b) | word_of(rng.below(total)))
        for _ in range(6):
            mixed.append(word_of(rng.below(total)) - (1 << 31))  # bit 31 set: a negative word
        mixed.append(-(1 << 31))
        for _ in range(spec["mixed"]):
            w = word_of(rng.below(total))
            for _ in range(rng.randint(1, 3)):
                w |= 1 << rng.choice(unknown)
            mixed.append(w)
    cold = {}
    for w in mixed:
        cold[w] = verdict(w)
    for i in idxs:
        w = word_of(i)
        res["known_words"] += 1
        v = verdict(w)
        if v[0] == "ok" and v[1] == w:
            res["lossless"] += 1
        else:
            res["violations"].append({"property": "C11", "fingerprint": "C11/F1-known-flag-word-not-lossless/%s" % (v[0] if v[0] != "ok" else "value-differs"),
                                      "invariant": "F1-known-flag-word-not-lossless", "word": w, "got": list(v)})
    # warm: the same unknown-bit words again
    for w in mixed:
        res["unknown_words"] += 1
        v = verdict(w)
        if v != cold[w]:
            res["cold_warm_disagreements"] += 1
            res["violations"].append({"property": "C11", "fingerprint": "C11/F3-verdict-depends-on-history/flag-word", "invariant": "F3-verdict-depends-on-history",
                                      "word": w, "cold": list(cold[w]), "warm": list(v)})
        if v[0] == "raises":
            res["raised"] += 1
        elif v[0] == "ok" and v[1] == w:
            res["lossless"] += 1
        else:
            dropped = w & ~v[1] if v[0] == "ok" else w
            fpr = "C11/F2-unrepresentable-bit-dropped/flag-word"
            res["violations"].append({"property": "C11", "fingerprint": fpr, "invariant": "F2-unrepresentable-bit-dropped", "word": w, "got": list(v),
                                      "dropped_bits": [b for b in range(32) if (dropped >> b) & 1]})
    return res


def run_job(job, tree):
    mode = job["mode"]
    if mode == "batch":
        out = {"runs": []}
        for index, seed in job["runs"]:
            r = run_store(seed, tree, job["tier"], job.get("known", []), keep_sample=(index in job.get("keep_ops_for", [])))
            r["run"] = index
            out["runs"].append(r)
        return out
    if mode == "flagwords":
        return {"flagwords": flag_word_pass(job["seed"], job["tier"], job["spec"])}
    if mode == "replay":
        rec = job["record"]
        got = []
        if "word" in rec:
            r = flag_word_single(rec["word"])
            got = r
        else:
            src = workload.program_source(rec["prog"], tree)
            code = workload.try_compile(src, "<store>", "exec", rec.get("optimize", 0))
            if code is not None:
                cos = workload.all_code_objects(code)
                c = cos[rec["object_index"] % len(cos)]
                alt = tuple(rec["alteration"])
                c2 = alter(c, alt)
                if c2 is not None:
                    verdict, loc = judge(c2)
                    if verdict == "lossy":
                        got.append("C11/H1-silently-lossy/%s/%s" % (alt_class(alt, known_flag_bits()), loc))
        return {"got": got}
    raise ValueError(mode)


def flag_word_single(w):
    """Replay of one flag word: converted twice in this fresh process (cold, then warm)."""
    from code_data import _flags_data

    known_bits = known_flag_bits()
    has_unknown = any(((w >> b) & 1) and b not in known_bits for b in range(32))

    def verdict():
        out = sched._outcome(lambda: _flags_data.to_flags_data(w))
        if out[0] != "ok":
            return ("raises", out[1])
        back = sched._outcome(lambda: _flags_data.from_flags_data(set(out[1])))
        if back[0] != "ok":
            return ("back-raises", back[1])
        return ("ok", back[1])

    cold = verdict()
    warm = verdict()
    got = []
    if cold != warm:
        got.append("C11/F3-verdict-depends-on-history/flag-word")
    for v in (cold, warm):
        if v[0] == "raises" and has_unknown:
            continue
        if v[0] == "ok" and v[1] == w:
            continue
        if has_unknown:
            got.append("C11/F2-unrepresentable-bit-dropped/flag-word")
        else:
            got.append("C11/F1-known-flag-word-not-lossless/%s" % ("value-differs" if v[0] == "ok" else v[0]))
    return sorted(set(got))
