"""Strict structural fingerprints -- the harness's own eyes.

Everything that matters is compared on these, never on code == code (which ignores line
tables, file names and stack size) and never on the library's own == (itself under test).

All fingerprints are nested tuples whose leaves are ASCII strings or ints, so that repr()
of a fingerprint -- and therefore its SHA-256 digest -- is the same on CPython 3.7 .. 3.13
and under every PYTHONHASHSEED.  Runs on 3.7+.
"""
import dataclasses
import hashlib
import math
import types


def digest(obj):
    return hashlib.sha256(repr(obj).encode("ascii", "backslashreplace")).hexdigest()[:16]


def _float_tok(v):
    if math.isnan(v):
        return "f:nan"  # all NaNs are identified (C07/C08 say so)
    return "f:" + v.hex()


def const_fp(v, code_fn=None):
    """Type- and bit-exact rendering of a code constant (or any leaf value)."""
    t = type(v)
    if v is None:
        return "N"
    if t is bool:
        return "b:1" if v else "b:0"
    if t is int:
        return "i:" + hex(v)
    if t is float:
        return _float_tok(v)
    if t is complex:
        return ("c", _float_tok(v.real), _float_tok(v.imag))
    if t is str:
        return "s:" + ascii(v)
    if t is bytes:
        return "y:" + v.hex()
    if v is Ellipsis:
        return "E"
    if t is tuple:
        return ("T",) + tuple(const_fp(x, code_fn) for x in v)
    if t is list:
        return ("L",) + tuple(const_fp(x, code_fn) for x in v)
    if t is frozenset:
        return ("FS",) + tuple(sorted((const_fp(x, code_fn) for x in v), key=repr))
    if t is set:
        return ("SET",) + tuple(sorted((const_fp(x, code_fn) for x in v), key=repr))
    if t is dict:
        return ("DICT",) + tuple(
            sorted(((const_fp(k, code_fn), const_fp(x, code_fn)) for k, x in v.items()), key=repr)
        )
    if isinstance(v, types.CodeType):
        return (code_fn or code_fp)(v)
    if dataclasses.is_dataclass(v) and not isinstance(v, type):
        return data_fp(v)
    return ("X", t.__name__, ascii(v)[:200])


_CODE_FIELDS = [
    "co_argcount",
    "co_posonlyargcount",
    "co_kwonlyargcount",
    "co_nlocals",
    "co_stacksize",
    "co_flags",
    "co_names",
    "co_varnames",
    "co_freevars",
    "co_cellvars",
    "co_filename",
    "co_name",
    "co_firstlineno",
]

HEADER_FIELDS = list(_CODE_FIELDS)


def code_fp(c):
    """Every header field, bytecode, raw line table bytes and constants, recursively."""
    out = [("K", "code")]
    for f in _CODE_FIELDS:
        if hasattr(c, f):
            out.append((f, const_fp(getattr(c, f))))
    out.append(("co_code", c.co_code.hex()))
    if hasattr(c, "co_linetable"):
        out.append(("co_linetable", c.co_linetable.hex()))
    out.append(("co_lnotab", c.co_lnotab.hex()))
    out.append(("co_consts", tuple(const_fp(k) for k in c.co_consts)))
    return tuple(out)


def header_of(c):
    return tuple((f, getattr(c, f)) for f in _CODE_FIELDS if hasattr(c, f))


_FIELD_CACHE = {}


def _field_names(t):
    names = _FIELD_CACHE.get(t)
    if names is None:
        if dataclasses.is_dataclass(t):
            names = tuple(f.name for f in dataclasses.fields(t))
        else:
            names = False
        _FIELD_CACHE[t] = names
    return names


def data_fp(d):
    """CodeData (or any of its parts): every dataclass field including private ones,
    container types recorded."""
    t = type(d)
    if t is str:
        return "s:" + ascii(d)
    if t is tuple:
        return ("T",) + tuple([data_fp(x) for x in d])
    if d is None:
        return "N"
    if t is int:
        return "i:" + hex(d)
    names = _field_names(t)
    if names:
        return ("D", t.__name__) + tuple([(n, data_fp(getattr(d, n))) for n in names])
    if t is list:
        return ("L",) + tuple([data_fp(x) for x in d])
    if t is frozenset:
        return ("FS",) + tuple(sorted([data_fp(x) for x in d], key=repr))
    if t is dict:
        return ("DICT",) + tuple(
            sorted([(data_fp(k), data_fp(x)) for k, x in d.items()], key=repr)
        )
    return const_fp(d, code_fp)


def doc_fp(v, canonical=False):
    """JSON value with exact types; key order ignored.

    exact (canonical=False): list order kept everywhere -- for argument snapshots and
    same-argument repeatability.
    canonical=True: the listing of every {"frozenset": [...]} is sorted -- for comparing
    documents that come from different processes / routes.
    """
    t = type(v)
    if t is dict:
        items = []
        for k, x in v.items():
            if canonical and k == "frozenset" and type(x) is list and len(v) == 1:
                sub = ("l",) + tuple(sorted((doc_fp(e, True) for e in x), key=repr))
            else:
                sub = doc_fp(x, canonical)
            items.append((k if type(k) is str else ("K!", type(k).__name__, ascii(k)), sub))
        items.sort(key=repr)
        return ("d",) + tuple(items)
    if t is list:
        return ("l",) + tuple(doc_fp(x, canonical) for x in v)
    if t is tuple:
        return ("t!",) + tuple(doc_fp(x, canonical) for x in v)
    if v is None or t in (bool, int, float, str):
        return const_fp(v)
    if dataclasses.is_dataclass(v) and not isinstance(v, type):
        return ("obj!", data_fp(v))
    return ("obj!", t.__name__, ascii(v)[:200])


def container_ids(v, acc=None):
    """ids of every live dict/list reachable in a JSON value."""
    if acc is None:
        acc = {}
    t = type(v)
    if t is dict:
        if id(v) in acc:
            return acc
        acc[id(v)] = v
        for x in v.values():
            container_ids(x, acc)
    elif t is list:
        if id(v) in acc:
            return acc
        acc[id(v)] = v
        for x in v:
            container_ids(x, acc)
    return acc


def diff_path(a, b, path=""):
    """Normalised location of the first difference between two doc/data fingerprints.

    Sequence indices are written '*' so the location does not depend on where in a
    program the difference sits; dict keys and dataclass field names are kept.
    Returns None when equal.
    """
    if a == b:
        return None
    if type(a) is not tuple or type(b) is not tuple or not a or not b or a[0] != b[0]:
        return path or "<root>"
    tag = a[0]
    if tag == "d":
        da = dict(a[1:])
        db = dict(b[1:])
        for k in sorted(set(list(da.keys()) + list(db.keys())), key=repr):
            if k not in da or k not in db:
                return (path + "." if path else "") + str(k)
            r = diff_path(da[k], db[k], (path + "." if path else "") + str(k))
            if r:
                return r
        return path or "<root>"
    if tag == "D":
        if a[1] != b[1]:
            return path or "<root>"
        for (ka, va), (kb, vb) in zip(a[2:], b[2:]):
            if ka != kb:
                return path or "<root>"
            r = diff_path(va, vb, (path + "." if path else "") + str(ka))
            if r:
                return r
        return path or "<root>"
    if tag in ("l", "T", "L", "t!"):
        if len(a) != len(b):
            return (path or "<root>") + "[len]"
        for x, y in zip(a[1:], b[1:]):
            r = diff_path(x, y, path + "[*]")
            if r:
                return r
        return path or "<root>"
    if tag == "K" or (len(a) and type(a[0]) is tuple):
        # code fingerprint: tuple of (field, value)
        for x, y in zip(a, b):
            if x != y:
                if type(x) is tuple and len(x) == 2 and type(x[0]) is str:
                    return (path + "." if path else "") + x[0]
                return path or "<root>"
    return path or "<root>"


def code_diff_fields(fa, fb):
    """List of header/body field names in which two code fingerprints differ (top level)."""
    out = []
    da = dict(x for x in fa if type(x) is tuple and len(x) == 2)
    db = dict(x for x in fb if type(x) is tuple and len(x) == 2)
    for k in sorted(set(list(da) + list(db))):
        if da.get(k) != db.get(k):
            out.append(k)
    return out
