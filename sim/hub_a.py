"""Hub for engine A (history machine; C12, C06, C08): plans seeded run batches over the four
decoding interpreters, runs each batch in a fresh worker process, aggregates, minimises and
confirms violations, self-tests determinism, writes evidence."""
import json
import os
import time
from concurrent.futures import ThreadPoolExecutor

from . import hubutil, prng
from .hubutil import HarnessError
from .minimise import Minimiser

WORKERS = int(os.environ.get("VERIF_WORKERS", "16"))

# (batches, runs per batch) at the default budget
PLAN = {
    "C12": {"quick": (112, 20), "thorough": (700, 30)},
    "C06": {"quick": (448, 12), "thorough": (3600, 16)},
    "C08": {"quick": (320, 10), "thorough": (3200, 14)},
}
DEFAULT_BUDGET = {"quick": 90.0, "thorough": 1500.0}

LEVEL = {"C12": "exploration", "C06": "exploration", "C08": "exploration"}

RULES = {
    "C12": "One evaluation = one seeded run of the history machine in a real CPython 3.7-3.10 process: a pool of live code/CodeData/JSON "
           "objects driven by a seeded sequence of API calls (from_code, to_code, normalize, to_json_data, from_json_data; repeated and on "
           "shared arguments), harness aliasing, hostile scribbling on returned documents, aborts injected at a seeded line inside a call, "
           "and 2-3 callers pre-empted at line granularity under a seeded schedule; after every step the shadow model checks argument "
           "snapshots, n-th == first result, and container sharing. A run is NON-TRIVIAL when it made >= 3 API calls and >= 1 fault actually "
           "fired; distinct = distinct SHA-256 run digest (event log of ops, operands, outcomes, result fingerprints) among non-trivial runs.",
    "C06": "One evaluation = one seeded history over one program lineage in a real CPython 3.7-3.10 process: normalize / code round trip / JSON "
           "round trip (seeded dumps options, shuffled key order and frozenset listings) / artefact-perturbed code round trip (permuted "
           "constant, name, local and cell tables with consistent operand renumbering; appended unreferenced entries; redundant EXTENDED_ARG "
           "prefixes; CO_NESTED flip; junk operand bytes on no-argument opcodes), each perturbation gated by CPython's own dis/line reading; "
           "invariant after every step: state == N0 (the lineage's first normal form). NON-TRIVIAL = >= 3 steps and >= 1 perturbation or "
           "transit shuffle fired; distinct = distinct run digest among those.",
    "C08": "One evaluation = one seeded run building a pool of CodeData/Constant values for one program by different routes (decode, normalize, "
           "code trip, JSON trip, pickle/marshal reload, leaf-by-leaf clone, confusable twin programs) in a real CPython 3.7-3.10 process and "
           "checking, for every pair/triple in the pool: hashability, reflexive/symmetric/transitive ==, equal => equal hash and set/dict "
           "behaviour, == versus the strict to_code() fingerprint partition, immutability; plus the complete confusable-constant table. "
           "NON-TRIVIAL = pool of >= 3 values with >= 1 identity-losing reload or twin; distinct = distinct run digest among those.",
}


def plan_batches(prop, tier, seed):
    nb, bs = PLAN[prop][tier]
    budget = float(os.environ.get("VERIF_BUDGET_S", DEFAULT_BUDGET[tier]))
    nb = max(8, int(nb * budget / DEFAULT_BUDGET[tier]))
    rot = prng.derive(seed, prop, "rot") % 4
    batches = []
    for b in range(nb):
        runs = [[i, prng.derive(seed, prop, "A", i)] for i in range(b * bs, (b + 1) * bs)]
        batches.append({"b": b, "interp": hubutil.OLD[(b + rot) % 4], "hashseed": prng.derive(seed, prop, "hs", b) % (2 ** 32), "runs": runs})
    return batches


def run_batch(prop, tier, tree, known, batch, keep=()):
    job = {"engine": "A", "prop": prop, "tree": tree, "tier": tier, "mode": "batch", "runs": batch["runs"],
           "known": sorted(known), "keep_ops_for": list(keep)}
    res = hubutil.run_worker(batch["interp"], batch["hashseed"], job, timeout=1200 if tier == "thorough" else 400)
    res["b"] = batch["b"]
    return res


def selftest(prop, tier, tree, known, batches, first_results):
    """Determinism: the first batch of each interpreter is executed again in a fresh process
    (sequentially, i.e. at a different worker count) and must give identical run digests."""
    checked = 0
    for interp in hubutil.OLD:
        b = next((x for x in batches if x["interp"] == interp), None)
        if b is None:
            continue
        small = dict(b, runs=b["runs"][:8])
        again = run_batch(prop, tier, tree, known, small)
        orig = {r[0]: r[1] for r in first_results[b["b"]]["rows"]}
        for row in again["rows"]:
            checked += 1
            if orig.get(row[0]) != row[1]:
                return checked, "determinism self-test failed: run %d on %s gave digest %s then %s" % (row[0], interp, orig.get(row[0]), row[1])
    return checked, None


def run(prop, tier, selftest_only=False):
    t0 = time.time()
    seed = hubutil.base_seed()
    hubutil.check_interpreters(hubutil.OLD)
    tree = hubutil.scratch_tree()
    known = hubutil.known_fingerprints(prop)
    batches = plan_batches(prop, tier, seed)
    print("[%s] tier=%s seed=%d batches=%d runs=%d workers=%d" % (prop, tier, seed, len(batches), sum(len(b["runs"]) for b in batches), WORKERS))
    keep_every = max(1, len(batches) // 3)

    def keep_of(b):
        return [b["runs"][0][0]] if b["b"] % keep_every == 0 else []

    def do(b):
        return run_batch(prop, tier, tree, known, b, keep_of(b))

    with ThreadPoolExecutor(max_workers=WORKERS) as ex:
        results = list(ex.map(do, batches))
    by_b = {r["b"]: r for r in results}
    n_checked, selftest_error = selftest(prop, tier, tree, known, batches, by_b)
    if selftest_only:
        if selftest_error:
            raise HarnessError(selftest_error)
        print("[%s] determinism self-test ok (%d runs re-executed)" % (prop, n_checked))
        return 0

    # aggregate
    counters, probes = {}, {}
    rows = []
    per_interp = {}
    violating = []
    samples = []
    shim = False
    for b, r in zip(batches, results):
        hubutil.merge_counts(counters, r["counters"])
        hubutil.merge_counts(probes, r["probes"])
        rows.extend(r["rows"])
        per_interp[b["interp"]] = per_interp.get(b["interp"], 0) + len(r["rows"])
        shim = shim or r.get("shim")
        for v in r["violating"]:
            v["_interp"], v["_hashseed"], v["_b"], v["_batch"] = b["interp"], b["hashseed"], b["b"], b
            violating.append(v)
        samples.extend(r["samples"])
    # C08 second stage: restart with only durable state surviving -- values pickled (after being hashed) by the
    # batch workers are reloaded in FRESH processes of the same interpreter under ANOTHER hash seed
    stage2 = {"checked": 0, "violations": []}
    if prop == "C08":
        by_interp = {}
        for b, r in zip(batches, results):
            for it in r.get("carry", []):
                by_interp.setdefault(b["interp"], []).append(dict(it, producer_hashseed=b["hashseed"]))
        s2jobs = []
        for interp in sorted(by_interp):
            items = by_interp[interp]
            for i in range(0, len(items), 60):
                s2jobs.append((interp, prng.derive(seed, prop, "stage2", interp, i) % (2 ** 32), items[i:i + 60]))

        def do2(j):
            res = hubutil.run_worker(j[0], j[1], {"engine": "A", "prop": prop, "tree": tree, "tier": tier, "mode": "reload_stage", "items": j[2]}, timeout=600)
            return j, res

        with ThreadPoolExecutor(max_workers=WORKERS) as ex:
            for j, res in ex.map(do2, s2jobs):
                stage2["checked"] += res["checked"]
                for v in res["violations"]:
                    it = next(x for x in j[2] if x["run"] == v["item"])
                    stage2["violations"].append((v, j[0], j[1], it))
        counters["fault_restart_reload_under_other_hash_seed"] = stage2["checked"]
    rows.sort()
    hubutil.dump_digests(prop, [(r[0], r[1]) for r in rows])
    evaluations = len(rows)
    nontrivial = [r for r in rows if r[5]]
    distinct_nontrivial = len(set(r[1] for r in nontrivial))
    fault_free = sum(1 for r in rows if r[6])

    # violations: known -> KNOWN-FINDING; unknown -> minimise, confirm in a fresh process, report
    exit_code = 0
    seen_known = {}
    new_by_fp = {}
    for v in sorted(violating, key=lambda x: x["run"]):
        for viol in v["violations"]:
            f = viol["fingerprint"]
            if f in known:
                seen_known[f] = seen_known.get(f, 0) + 1
            elif f not in new_by_fp:
                new_by_fp[f] = (v, viol)
    for f in sorted(seen_known):
        print("KNOWN-FINDING: property=%s %s (%s; hit in %d runs)" % (prop, f, known[f].get("what", ""), seen_known[f]))
    reported = 0
    unconfirmed = []
    os.makedirs(os.path.join(hubutil.VERIF, "replays"), exist_ok=True)
    for f in sorted(new_by_fp)[:6]:
        v, viol = new_by_fp[f]
        m = Minimiser(prop, v["_interp"], v["_hashseed"], tier, f, sorted(known), budget_s=40.0)
        small = m.run(v["ops"])
        ops = small if small is not None else [op for op in v["ops"] if not op.get("skipped")]
        # final confirmation: the file we are about to name must reproduce in a fresh process
        ok = m.test_many([ops])[0]
        if not ok and small is not None:
            ops = [op for op in v["ops"] if not op.get("skipped")]
            ok = m.test_many([ops])[0]
        rec = {"property": prop, "engine": "A", "fingerprint": f, "interp": v["_interp"], "hashseed": v["_hashseed"], "tier": tier,
               "base_seed": seed, "run_index": v["run"], "run_seed": v["seed"], "detail": viol, "cfg": v.get("cfg"),
               "ops_before_minimisation": len(v["ops"]), "minimiser_tests": m.tests, "ops": ops}
        if not ok:
            # second level (DESIGN 3.2): the violation needs state left behind by earlier runs of the batch
            # (library process-global state, or address reuse): re-execute the original batch job literally
            bt = v["_batch"]
            job = {"engine": "A", "prop": prop, "tree": "<scratch>", "tier": tier, "mode": "batch", "runs": bt["runs"], "known": sorted(known), "keep_ops_for": keep_of(bt)}
            again = run_batch(prop, tier, tree, known, bt, keep_of(bt))
            hit = any(f in [x["fingerprint"] for x in vr["violations"]] for vr in again["violating"] if vr["run"] == v["run"])
            if not hit:
                unconfirmed.append((f, v["run"], v["seed"]))
                continue
            rec.update({"mode": "batch", "cross_run_state": True, "job": job,
                        "note": "does not reproduce as a single run in a fresh process; reproduces when the whole batch is re-executed"})
        path = os.path.join(hubutil.VERIF, "replays", "%s-%s-run%d.json" % (prop, prng.derive(f) % (10 ** 8), v["run"]))
        with open(path, "w") as fh:
            json.dump(rec, fh, indent=1)
        print("VIOLATION property=%s replay=%s" % (prop, path))
        print("  fingerprint=%s interp=%s hashseed=%s run=%d ops=%d (from %d)" % (f, v["_interp"], v["_hashseed"], v["run"], len(ops), len(v["ops"])))
        reported += 1
        exit_code = 1
    seen2 = set()
    for v, interp, hs, it in stage2["violations"]:
        f = v["fingerprint"]
        if f in known:
            print("KNOWN-FINDING: property=%s %s" % (prop, f))
            continue
        if f in seen2:
            continue
        seen2.add(f)
        rec = {"property": prop, "engine": "A", "mode": "reload_stage", "fingerprint": f, "interp": interp, "hashseed": hs, "tier": tier, "base_seed": seed,
               "detail": v, "items": [it], "note": "value hashed and pickled in a worker under hash seed %s, reloaded in a fresh process under hash seed %s" % (it["producer_hashseed"], hs)}
        again = hubutil.run_worker(interp, hs, {"engine": "A", "prop": prop, "tree": tree, "tier": tier, "mode": "reload_stage", "items": [it]}, timeout=300)
        if f not in [x["fingerprint"] for x in again["violations"]]:
            unconfirmed.append((f, it["run"], None))
            continue
        path = os.path.join(hubutil.VERIF, "replays", "%s-%s-run%d.json" % (prop, prng.derive(f) % (10 ** 8), it["run"]))
        with open(path, "w") as fh:
            json.dump(rec, fh, indent=1)
        print("VIOLATION property=%s replay=%s" % (prop, path))
        print("  fingerprint=%s interp=%s hashseed=%s (producer hashseed %s) run=%d" % (f, interp, hs, it["producer_hashseed"], it["run"]))
        reported += 1
        exit_code = 1
    if unconfirmed and not reported:
        # a non-replayable alarm is never raised: harness error instead
        print("HARNESS-ERROR: %d violation(s) did not reproduce in a fresh process: %s" % (len(unconfirmed), unconfirmed[:3]))
        exit_code = 2
    if selftest_error:
        if reported:
            print("note: %s -- results of the library depend on state no seed controls (see the replayable violations above)" % selftest_error)
        else:
            print("HARNESS-ERROR: " + selftest_error)
            exit_code = 2

    wall = time.time() - t0
    fault_counts = {k: v for k, v in counters.items() if k.startswith("fault_")}
    coverage = {
        "evaluations": evaluations,
        "distinct_nontrivial": distinct_nontrivial,
        "rule": RULES[prop],
        "samples": samples[:3] or [{"note": "no sample kept"}],
        "runs_nontrivial": len(nontrivial),
        "runs_fault_free_control": fault_free,
        "runs_per_hour": int(evaluations / max(wall, 1e-6) * 3600),
        "seeds": {"base": seed, "first_run_seed": batches[0]["runs"][0][1], "last_run_seed": batches[-1]["runs"][-1][1],
                  "derivation": "run_seed(i)=sha256(VERIF_SEED,property,'A',i)[:8]; batch interpreter/hash seed from (VERIF_SEED,property,b)"},
        "simulated_time": "none - nothing in the system reads a clock; logical steps only",
        "logical_steps": {"ops": sum(r[8] for r in rows), "api_calls": sum(r[7] for r in rows), "preempt_line_steps": counters.get("preempt_line_steps", 0)},
        "faults_fired": fault_counts,
        "distinct_histories": len(set(r[2] for r in rows)),
        "distinct_interleavings": len(set(r[4] for r in rows if r[4])),
        "distinct_pool_states": len(set(r[3] for r in rows)),
        "reach_probes": probes,
        "counters": counters,
        "runs_per_interpreter": per_interp,
        "determinism_selftest_runs": n_checked,
        "known_findings_hit": seen_known,
        "components": hubutil.REAL_STUB,
        "typing_extensions_shim_used": bool(shim),
        "exhaustive": False,
    }
    assumptions = [
        "interpreters run without -O (the library validates with assert)",
        "pre-emption granularity is one Python line inside code_data/ frames; C-level atomicity of single bytecodes is not subdivided",
        "64-bit hash(str) collisions (which would merge two names in the encoder's tables) are not sampled",
        "a clean batch is evidence, not proof: seeded sampling of histories, schedules and fault sequences",
    ]
    hubutil.write_evidence(prop, tier, seed, LEVEL[prop], coverage, assumptions, wall, reported)
    print("[%s] runs=%d nontrivial=%d distinct_nontrivial=%d faults=%s wall=%.1fs exit=%d" % (
        prop, evaluations, len(nontrivial), distinct_nontrivial, json.dumps(fault_counts, sort_keys=True), wall, exit_code))
    return exit_code
