"""Engine B -- the exchange simulation (C15, C07) and the CLI node (C16).  Hub side, 3.12.

The hub is the simulator: it owns the PRNG, the transport, the monitors and the log, and is
the only component that makes choices.  Nodes are real CPython processes (3.7 .. 3.13), one
per (version, hash seed), synchronous, with no clock and no concurrency; the hub has at most
one request outstanding per run, so a run is sequential and a pure function of its plan.
A *plan* is generated from the run seed up-front and is fully explicit (producers, programs,
routes, per-hop transport faults, hash seeds); replay executes a recorded plan literally.
"""
import copy
import json
import multiprocessing
import os
import re
import subprocess
import sys
import threading
import time
from concurrent.futures import ProcessPoolExecutor

import fastjsonschema
import orjson

from . import hubutil, prng, workload
from .hubutil import HarnessError

WORKERS = int(os.environ.get("VERIF_WORKERS", "16"))
MAX_SAFE = 2 ** 53 - 1
PLAN = {"C15": {"quick": 640, "thorough": 12000}, "C07": {"quick": 640, "thorough": 10000}, "C16": {"quick": 1600, "thorough": 60000}}
DEFAULT_BUDGET = {"quick": 90.0, "thorough": 1500.0}


# ---------------------------------------------------------------------------------------
# nodes
# ---------------------------------------------------------------------------------------

class NodeProc(object):
    def __init__(self, ver, hashseed, tree):
        self.ver, self.hashseed = ver, hashseed
        cmd = hubutil.no_aslr_prefix() + [hubutil.INTERPRETERS[ver], os.path.join(hubutil.VERIF, "sim", "worker.py"), "node"]
        self.p = subprocess.Popen(cmd, stdin=subprocess.PIPE, stdout=subprocess.PIPE, stderr=subprocess.DEVNULL,
                                  env=hubutil.worker_env(hashseed, tree), cwd=hubutil.scratch_dir())
        line = self.p.stdout.readline()
        if b"@@READY@@" not in line:
            raise HarnessError("node %s failed to start: %r" % (ver, line[:200]))
        self.calls = 0

    def call(self, m, p=None, timeout=240.0):
        self.calls += 1
        # watchdog outside the simulation: a node that never answers is a harness error, never a verdict
        timer = threading.Timer(timeout, self.p.kill)
        timer.daemon = True
        timer.start()
        try:
            payload = json.dumps({"m": m, "p": p or {}}).encode("utf-8")
            self.p.stdin.write(b"%d\n" % len(payload) + payload)
            self.p.stdin.flush()
            line = self.p.stdout.readline()
        except (BrokenPipeError, OSError):
            line = b""
        finally:
            timer.cancel()
        if not line:
            raise HarnessError("node %s died or timed out during %s" % (self.ver, m))
        res = json.loads(line)
        if "node_error" in res:
            raise HarnessError("node %s internal error in %s: %s" % (self.ver, m, res["node_error"]))
        return res

    def kill(self):
        try:
            self.p.stdin.close()
        except Exception:
            pass
        try:
            self.p.kill()
            self.p.wait(10)
        except Exception:
            pass


class Validator(object):
    def __init__(self, schema):
        self.p = subprocess.Popen([hubutil.VALIDATOR_PY, os.path.join(hubutil.VERIF, "sim", "validator.py")], stdin=subprocess.PIPE,
                                  stdout=subprocess.PIPE, stderr=subprocess.DEVNULL, env={"PATH": "/usr/bin:/bin", "PYTHONHASHSEED": "0"})
        if b"@@READY@@" not in self.p.stdout.readline():
            raise HarnessError("validator node failed to start")
        self._rpc({"schema": schema})

    def _rpc(self, req):
        self.p.stdin.write((json.dumps(req) + "\n").encode("utf-8"))
        self.p.stdin.flush()
        line = self.p.stdout.readline()
        if not line:
            raise HarnessError("validator node died")
        return json.loads(line)

    def validate(self, text):
        return self._rpc({"text": text})

    def kill(self):
        try:
            self.p.kill()
            self.p.wait(10)
        except Exception:
            pass


class Cluster(object):
    """Nodes of ONE run, spawned lazily, all killed at the end of the run."""

    def __init__(self, tree):
        self.tree = tree
        self.nodes = {}
        self.spawned = 0
        self.restarts = 0

    def get(self, role, ver, hashseed):
        key = (role, ver)
        n = self.nodes.get(key)
        if n is None or n.hashseed != hashseed:
            if n is not None:
                n.kill()
            n = NodeProc(ver, hashseed, self.tree)
            self.nodes[key] = n
            self.spawned += 1
        return n

    def restart(self, role, ver, new_hashseed):
        key = (role, ver)
        n = self.nodes.pop(key, None)
        if n is not None:
            n.kill()
            self.restarts += 1
        return self.get(role, ver, new_hashseed)

    def close(self):
        for n in self.nodes.values():
            n.kill()
        self.nodes = {}


# ---------------------------------------------------------------------------------------
# transport + canonical forms
# ---------------------------------------------------------------------------------------

def canon(v):
    """Type-exact canonical value: frozenset listings sorted by the canonical text of their elements."""
    if isinstance(v, dict):
        out = {}
        for k, x in v.items():
            if k == "frozenset" and isinstance(x, list) and len(v) == 1:
                out[k] = sorted((canon(e) for e in x), key=canon_text)
            else:
                out[k] = canon(x)
        return out
    if isinstance(v, list):
        return [canon(x) for x in v]
    return v


def canon_text(v):
    return json.dumps(v, sort_keys=True, ensure_ascii=True, allow_nan=True)


def canon_of_text(text):
    return canon_text(canon(json.loads(text)))


def doc_diff(a, b, path=""):
    """Normalised location of the first difference between two canonical values."""
    if type(a) is not type(b):
        return path or "<root>"
    if isinstance(a, dict):
        for k in sorted(set(a) | set(b)):
            if k not in a or k not in b:
                return (path + "." if path else "") + k
            r = doc_diff(a[k], b[k], (path + "." if path else "") + k)
            if r:
                return r
        return None
    if isinstance(a, list):
        if len(a) != len(b):
            return (path or "<root>") + "[len]"
        for x, y in zip(a, b):
            r = doc_diff(x, y, path + "[*]")
            if r:
                return r
        return None
    if a != b or (isinstance(a, float) and repr(a) != repr(b)):
        return path or "<root>"
    return None


def norm_path(p):
    marker = ".constant."
    while p and marker in p:
        pre, post = p.split(marker, 1)
        if pre.startswith("blocks[*][*].arg") or pre.startswith("_additional_args[*]"):
            p = post
        else:
            break
    # nesting depth of tuples inside a constant is not part of the location
    return re.sub(r"(\[\*\])+", "[*]", p) if p else p


def shuffle_doc(v, rng, keys, fsets, touched):
    if isinstance(v, dict):
        ks = list(v.keys())
        if keys:
            rng.shuffle(ks)
        out = {}
        for k in ks:
            x = v[k]
            if fsets and k == "frozenset" and isinstance(x, list) and len(v) == 1:
                x = list(x)
                rng.shuffle(x)
                if len(x) > 1:
                    touched[0] += 1
            out[k] = shuffle_doc(x, rng, keys, fsets, touched)
        return out
    if isinstance(v, list):
        return [shuffle_doc(x, rng, keys, fsets, touched) for x in v]
    return v


def transport(text, f, stats):
    """Apply the per-hop transport faults that keep the document's meaning (never loss or corruption)."""
    t = f.get("transcode")
    if f.get("shuffle_keys") is not None or f.get("shuffle_fs") is not None:
        touched = [0]
        doc = json.loads(text)  # Python's json accepts NaN/Infinity tokens
        r = prng.PRNG(f.get("shuffle_keys") if f.get("shuffle_keys") is not None else f.get("shuffle_fs"))
        doc = shuffle_doc(doc, r, f.get("shuffle_keys") is not None, f.get("shuffle_fs") is not None, touched)
        text = json.dumps(doc, ensure_ascii=True)
        stats["fault_shuffle"] = stats.get("fault_shuffle", 0) + 1
        if touched[0]:
            stats["frozenset_listing_shuffled"] = stats.get("frozenset_listing_shuffled", 0) + 1
    if t:
        # a transcoder that cannot take the text (e.g. orjson on a NaN token) leaves it as it is: whether
        # the text is strict JSON is C07's monitor J1, not the transport's business
        try:
            if t["lib"] == "orjson":
                opt = orjson.OPT_SORT_KEYS if t.get("sort_keys") else 0
                if t.get("indent"):
                    opt |= orjson.OPT_INDENT_2
                text = orjson.dumps(orjson.loads(text), option=opt).decode("utf-8")
                stats["fault_transcode_orjson"] = stats.get("fault_transcode_orjson", 0) + 1
            else:
                kw = {"ensure_ascii": bool(t.get("ensure_ascii")), "sort_keys": bool(t.get("sort_keys"))}
                if t.get("indent"):
                    kw["indent"] = 2
                elif t.get("compact"):
                    kw["separators"] = (",", ":")
                text = json.dumps(json.loads(text), **kw)
                stats["fault_transcode_json"] = stats.get("fault_transcode_json", 0) + 1
        except (ValueError, TypeError, orjson.JSONDecodeError, orjson.JSONEncodeError):
            stats["transcoder_declined"] = stats.get("transcoder_declined", 0) + 1
    return text


# ---------------------------------------------------------------------------------------
# C07 monitors
# ---------------------------------------------------------------------------------------

def strictness(text):
    """J1 -> None or (what, detail)."""
    try:
        text.encode("utf-8")
    except UnicodeEncodeError:
        return ("text-not-utf8", "")
    if re.search(r"(?<![\w\"])(NaN|-?Infinity)(?![\w\"])", strip_strings(text)):
        return ("nan-or-infinity-token", "")
    try:
        v = json.loads(text, parse_constant=_reject_constant)
    except ValueError as e:
        return ("not-parseable", str(e)[:80])
    bad = walk_strict(v, "")
    if bad:
        return bad
    try:
        v2 = orjson.loads(text)
    except Exception as e:
        return ("orjson-rejects", type(e).__name__ + ":" + str(e)[:80])
    if canon_text(v) != canon_text(v2):
        return ("json-and-orjson-disagree", "")
    try:
        json.dumps(v, allow_nan=False)
        orjson.dumps(v)
    except Exception as e:
        return ("cannot-re-emit-strictly", type(e).__name__)
    return None


def _reject_constant(name):
    raise ValueError("non-JSON constant " + name)


def strip_strings(text):
    return re.sub(r'"(?:[^"\\]|\\.)*"', '""', text)


def walk_strict(v, path):
    if isinstance(v, dict):
        for k, x in v.items():
            if not isinstance(k, str):
                return ("non-string-key", path)
            r = walk_strict(x, path + "." + k)
            if r:
                return r
        return None
    if isinstance(v, list):
        for x in v:
            r = walk_strict(x, path + "[*]")
            if r:
                return r
        return None
    if v is None or isinstance(v, (bool, str)):
        return None
    if isinstance(v, int):
        if abs(v) > MAX_SAFE:
            return ("integer-beyond-2^53", norm_path(path.lstrip(".")))
        return None
    if isinstance(v, float):
        if v != v or v in (float("inf"), float("-inf")):
            return ("non-finite-float", norm_path(path.lstrip(".")))
        return None
    return ("non-json-type:" + type(v).__name__, path)


# ---------------------------------------------------------------------------------------
# plans
# ---------------------------------------------------------------------------------------

FILENAMES = ["<sim>", "<string>", "mod.py", "/tmp/pkg/mé.py", "中.py", "a\udc80b.py", ""]
ZOO_WRAP = ["%s", "(%s, 1)", "frozenset([%s])", "(frozenset([%s, 2]), 'z')", "frozenset([(%s,), 3])", "((%s,),)"]


def zoo_expr(rng):
    base = workload.const_src(rng, 2)
    w = rng.choice(ZOO_WRAP)
    return w % base


def gen_item(rng, tier, ver="3.7"):
    # the hub is 3.12 and only writes program TEXT: syntax is gated by the version of the producer that will
    # compile it (positional-only parameters and walrus from 3.8, match from 3.10)
    vt = tuple(int(x) for x in ver.split("."))
    kind = rng.weighted([("gen", 4), ("tmpl", 5), ("corpus", 2), ("stdlib", 0 if tier == "quick" else 1)])
    if kind == "gen":
        size = rng.weighted([("small", 8), ("medium", 2 if tier == "quick" else 4)])
        src = workload.Gen(rng.fork("gen"), vt, size).program()
        prog = {"kind": "gen", "name": "gen-" + size, "src": src}
    elif kind == "tmpl":
        prog = {"kind": "tmpl", "name": "tmpl", "src": workload.template_source(rng, vt)}
    elif kind == "corpus":
        items = workload.corpus_items(hubutil.scratch_tree())
        cap = 20000 if tier == "quick" else 200000
        prog = None
        for _ in range(8):
            name, path, src = rng.choice(items)
            if path is None:
                prog = {"kind": "corpus", "name": name, "src": src}
                break
            if os.path.getsize(path) <= cap:
                prog = {"kind": "corpus", "name": name, "relpath": os.path.relpath(path, hubutil.scratch_tree())}
                break
        prog = prog or {"kind": "corpus", "name": "ex:fn", "src": "def fn(): pass"}
    else:
        prog = {"kind": "stdlib", "name": "std", "stdlib": rng.choice(["abc.py", "bisect.py", "colorsys.py", "copy.py", "fnmatch.py", "glob.py", "heapq.py",
                                                                      "keyword.py", "json/decoder.py", "json/scanner.py", "queue.py", "reprlib.py", "shlex.py",
                                                                      "stat.py", "textwrap.py", "this.py", "types.py", "weakref.py"])}
    item = {"prog": prog, "filename": rng.choice(FILENAMES) if rng.chance(0.35) else "<sim>", "optimize": rng.choice([0, 0, 0, 1, 2]),
            "pick": rng.choice([0, 0, 1, 2, 3, 5])}
    if rng.chance(0.35):
        g = {"append": [zoo_expr(rng) for _ in range(rng.randint(1, 3))]}
        if rng.chance(0.3):
            g["rename"] = {"names": rng.randint(0, 20) if rng.chance(0.6) else None, "co_name": rng.chance(0.3),
                           "varnames": rng.randint(0, 20) if rng.chance(0.5) else None,
                           "co_freevars": rng.randint(0, 5) if rng.chance(0.4) else None, "co_cellvars": rng.randint(0, 5) if rng.chance(0.4) else None}
        if rng.chance(0.3):
            g["line_tail"] = rng.choice(["noline", "noline", 3, 100, "multi"])
        if rng.chance(0.2):
            g["extarg"] = rng.randint(1, 2 ** 32)
        if rng.chance(0.2):
            g["firstlineno"] = rng.choice([0, 0, 1, 2 ** 31 - 2000])  # absolute line numbers 0, or near the C int limit
        item["graft"] = g
    if rng.chance(0.05):
        # a loop whose body ends in an if/elif chain: 3.10 compiles an artificial jump back WITHOUT a line number;
        # with a redundant prefix in front of it, its JSON form carries an override as its only optional key
        n_elif = rng.randint(1, 3)
        body = "        if x:\n            k += %d\n" % rng.randint(1, 9)
        for j in range(n_elif):
            body += "        elif x is %s:\n            k -= %d\n" % (rng.choice(["None", "k", "xs"]), rng.randint(1, 9))
        src = "def f(xs, k):\n    for x in xs:\n" + body + ("    while k:\n        if k > 3:\n            k -= 2\n        elif k:\n            k -= 1\n" if rng.chance(0.5) else "") + "    return k\n"
        item["prog"] = {"kind": "tmpl", "name": "loop-elif", "src": src}
        item["pick"] = 1  # the function, not the module
        item["graft"] = {"append": [], "extarg": rng.randint(1, 2 ** 32)}
    if rng.chance(0.25):
        # producer history: the in-memory round trip of docs/usage.md (to_json_data -> from_json_data, no text in
        # between) on the same value BEFORE the document that is sent is made
        item["inmem_first"] = rng.choice([1, 1, 2])
    return item


def gen_hop_faults(rng, no_faults):
    if no_faults:
        return {}
    f = {}
    if rng.chance(0.25):
        f["dup"] = True
    if rng.chance(0.2):
        f["restart"] = rng.randint(0, 2 ** 32 - 1)
    if rng.chance(0.5):
        if rng.chance(0.4):
            f["transcode"] = {"lib": "orjson", "sort_keys": rng.chance(0.4), "indent": rng.chance(0.2)}
        else:
            f["transcode"] = {"lib": "json", "ensure_ascii": rng.chance(0.5), "sort_keys": rng.chance(0.4), "indent": rng.chance(0.2), "compact": rng.chance(0.4)}
    if rng.chance(0.3):
        f["shuffle_keys"] = rng.randint(0, 2 ** 32)
    if rng.chance(0.4):
        f["shuffle_fs"] = rng.randint(0, 2 ** 32)
    return f


def gen_exchange_plan(seed, tier, prop):
    rng = prng.PRNG(seed)
    fault_free = rng.chance(0.2)
    consumers = hubutil.ALL
    nprod = rng.choice([1, 1, 2, 3])
    producers = []
    for _ in range(nprod):
        pv = rng.choice(hubutil.OLD)
        producers.append({"ver": pv, "hashseed": rng.randint(0, 2 ** 32 - 1),
                          "items": [gen_item(rng, tier, pv) for _ in range(rng.choice([1, 1, 2]))]})
    docs = []
    for pi, p in enumerate(producers):
        for ii in range(len(p["items"])):
            for normalized in ([False, True] if rng.chance(0.4) else [rng.chance(0.3)]):
                nh = rng.choice([1, 1, 2, 3])
                hops = []
                for h in range(nh):
                    hops.append({"ver": rng.choice(consumers), "hashseed": rng.randint(0, 2 ** 32 - 1), "faults": gen_hop_faults(rng, fault_free)})
                docs.append({"producer": pi, "item": ii, "normalized": normalized, "hops": hops,
                             "j3_hashseed": rng.randint(0, 2 ** 32 - 1), "j3_transcode": gen_hop_faults(rng, fault_free).get("transcode")})
    docs = docs[:6]
    shared = False
    if rng.chance(0.35):
        # long-lived consumers: every hop of every document of this run goes to one of 1-2 consumer processes
        # (one hash seed per version), so a consumer handles several different documents one after another
        shared = True
        vers = rng.sample(consumers, rng.choice([1, 1, 2]))
        hs = {v: rng.randint(0, 2 ** 32 - 1) for v in vers}
        for d in docs:
            for hop in d["hops"]:
                hop["ver"] = rng.choice(vers)
                hop["hashseed"] = hs[hop["ver"]]
    if any(len(it["prog"].get("src") or "") > 100000 for p in producers for it in p["items"]):
        # a 2^16-entry program: every hop (and every schema validation) of its multi-megabyte document costs
        # tens of seconds; such a run gets one document and at most two hops
        big = [d for d in docs if len(producers[d["producer"]]["items"][d["item"]]["prog"].get("src") or "") > 100000][:1]
        for d in big:
            d["hops"] = d["hops"][:2]
        docs = big + [d for d in docs if d not in big and len(producers[d["producer"]]["items"][d["item"]]["prog"].get("src") or "") <= 100000]
    return {"kind": "exchange", "producers": producers, "docs": docs, "order_seed": rng.randint(0, 2 ** 32), "fault_free": fault_free, "shared_consumers": shared}


# ---------------------------------------------------------------------------------------
# exchange execution
# ---------------------------------------------------------------------------------------

class RunLog(object):
    def __init__(self, prop):
        self.prop = prop
        self.violations = []
        self.stats = {}
        self.matrix = {}
        self.events = []
        self.messages = 0

    def count(self, k, n=1):
        self.stats[k] = self.stats.get(k, 0) + n

    def event(self, *parts):
        self.events.append(repr(parts))

    def violate(self, prop, invariant, location, detail):
        f = "%s/%s/%s" % (prop, invariant, location)
        self.violations.append({"property": prop, "invariant": invariant, "location": location, "fingerprint": f, "detail": detail})
        self.event("VIOLATION", f)

    def digest(self):
        import hashlib

        return hashlib.sha256("\n".join(self.events).encode("utf-8", "backslashreplace")).hexdigest()[:16]


_HUB_STATE = {}


def hub_state(tree):
    """Per hub-worker-process singletons: fastjsonschema validator and the jsonschema validator node."""
    st = _HUB_STATE.get(tree)
    if st is None:
        n = NodeProc("3.9", 0, tree)
        schema = n.call("schema")["schema"]
        n.kill()
        st = {"schema": schema, "fast": fastjsonschema.compile(schema), "validator": Validator(schema)}
        _HUB_STATE[tree] = st
    return st


def monitors_c07(log, text, st, where):
    """J1 + J2 on one message entering the transport."""
    log.count("j_messages_checked")
    s = strictness(text)
    if s:
        log.violate("C07", "J1-not-strict", s[0] + (":" + s[1] if s[1] and s[0] in ("integer-beyond-2^53", "non-finite-float") else ""), {"where": where, "detail": s[1]})
        return False
    doc = json.loads(text)
    try:
        st["fast"](doc)
    except fastjsonschema.JsonSchemaException as e:
        loc = re.sub(r"\[\d+\]", "[*]", str(getattr(e, "name", "") or ""))
        log.violate("C07", "J2-schema-invalid", "fastjsonschema:" + norm_path(loc.replace("data.", "", 1).replace("data", "", 1)) + ":" + str(getattr(e, "rule", "")),
                    {"where": where, "msg": str(e)[:200]})
        return False
    if len(text) > 1000000:
        # multi-megabyte message (a 2^16-entry program): the pure-Python second validator needs ~10 s for it, so
        # only the first such message of a run goes through both validators; the rest rely on the compiled one
        if log.stats.get("huge_messages_validated_twice", 0) >= 1:
            log.count("huge_messages_validated_by_compiled_validator_only")
            return True
        log.count("huge_messages_validated_twice")
    r = st["validator"].validate(text)
    if not r["valid"]:
        log.violate("C07", "J2-schema-invalid", "jsonschema:" + r.get("schema_path", ""), {"where": where, "path": r.get("path"), "msg": r.get("msg")})
        return False
    return True


def exec_exchange(plan, tree, prop, log=None):
    log = log or RunLog(prop)
    st = hub_state(tree)
    cl = Cluster(tree)
    rng_order = prng.PRNG(plan["order_seed"])
    want_c07 = prop == "C07"
    want_c15 = prop == "C15"
    try:
        produced = {}
        for pi, p in enumerate(plan["producers"]):
            node = cl.get("prod%d" % pi, p["ver"], p["hashseed"])
            for ii, item in enumerate(p["items"]):
                r = node.call("produce", {"item": item})
                log.event("produce", pi, ii, r.get("ok"), r.get("why"), r.get("fp_data"), r.get("fp_datan"))
                if not r["ok"]:
                    log.count("produce_failed:" + r["why"].split(":")[0])
                    if want_c07 and r["why"].startswith("to_json_data-raises"):
                        log.violate("C07", "J0-to_json_data-raises", r["why"].split(":")[1], {"why": r["why"], "item": item.get("prog", {}).get("name")})
                    if want_c07 and r["why"].startswith("document-not-plain-json"):
                        log.violate("C07", "J0-document-not-plain-json", r["why"].split(":")[1], {"why": r["why"], "item": item.get("prog", {}).get("name")})
                    continue
                produced[(pi, ii)] = r
                log.count("documents_produced", 2)
                if item.get("inmem_first"):
                    log.count("fault_producer_in_memory_round_trip_first")
        # messages in flight: (doc index, hop level, text)
        state = {}
        for di, d in enumerate(plan["docs"]):
            r = produced.get((d["producer"], d["item"]))
            if r is None:
                continue
            tag = "n" if d["normalized"] else ""
            D = r["D" + tag]
            state[di] = {"text": D, "D": canon_of_text(D), "Dn": canon_of_text(r["Dn"]), "r": r, "tag": tag}
            pver = plan["producers"][d["producer"]]["ver"]
            if "frozenset" in D:
                log.count("docs_with_frozenset")
            if '"float": "nan"' in D:
                log.count("docs_with_nan")
            if '{"string":' in D:
                log.count("docs_with_surrogate_string")
            if '"positional_only"' in D:
                log.count("docs_with_positional_only_args")
            if '"_n_args_override": 5' in D or '"_n_args_override": 6' in D:
                log.count("docs_with_5_or_more_code_units_jump")
            if '"_additional_line"' in D:
                log.count("docs_with_additional_line")
                if '"line": null' in D:
                    log.count("docs_with_additional_line_without_line")
            if want_c07:
                where = "producer %s doc%s" % (pver, " (normalized)" if tag else "")
                if monitors_c07(log, D, st, where):
                    # J3: a real serialize/parse cycle through the transport's transcoder, then reload on the producing version
                    T = transport(D, {"transcode": d.get("j3_transcode")} if d.get("j3_transcode") else {}, log.stats)
                    if not monitors_c07(log, T, st, where + " after transcoding"):
                        continue
                    pnode = cl.get("prod%d" % d["producer"], pver, plan["producers"][d["producer"]]["hashseed"])
                    a = pnode.call("reload_check", {"text": T, "handle": r["handle" + tag]})
                    log.event("j3a", di, a.get("ok"), a.get("eq"), a.get("hash_eq"))
                    log.count("j3_reload_on_producer")
                    if not a["ok"]:
                        log.violate("C07", "J3-reload-raises", a["why"].split(":")[1] if ":" in a["why"] else a["why"], {"why": a["why"], "where": where})
                    elif not a["eq"]:
                        log.violate("C07", "J3-reload-not-equal", norm_path(a.get("where") or "?"), {"where": where})
                    elif not a["hash_eq"]:
                        log.violate("C07", "J3-reload-equal-but-hash-differs", "hash", {"where": where})
                    fresh = cl.get("fresh", pver, d["j3_hashseed"])
                    b = fresh.call("reload_fp", {"text": T})
                    log.event("j3b", di, b.get("ok"), b.get("fp_data"), b.get("fp_code"))
                    log.count("j3_reload_on_fresh_node")
                    if not b["ok"]:
                        log.violate("C07", "J3-reload-raises", b["why"].split(":")[1] if ":" in b["why"] else b["why"], {"why": b["why"], "where": where + " (fresh node)"})
                    else:
                        if b["fp_data"] != r["fp_data" + tag]:
                            log.violate("C07", "J3-reload-strict-data-differs", "fresh-node", {"where": where})
                        elif b["fp_code"] != r["fp_code" + tag]:
                            log.violate("C07", "J3-reload-code-differs", "%s->%s" % ("ok" if not r["fp_code" + tag].startswith("raise") else r["fp_code" + tag],
                                                                                "ok" if not b["fp_code"].startswith("raise") else b["fp_code"]), {"where": where})
                        elif not b["hashable"]:
                            log.violate("C07", "J3-reload-unhashable", "fresh-node", {"where": where})
        max_hops = max([len(plan["docs"][di]["hops"]) for di in state] or [0])
        for level in range(max_hops):
            pending = [di for di in sorted(state) if len(plan["docs"][di]["hops"]) > level and state[di].get("alive", True)]
            rng_order.shuffle(pending)  # reordering across documents and producers
            if len(pending) > 1:
                log.count("fault_reorder")
            for di in pending:
                d = plan["docs"][di]
                hop = d["hops"][level]
                f = hop.get("faults", {})
                stt = state[di]
                pver = plan["producers"][d["producer"]]["ver"]
                text = transport(stt["text"], f, log.stats)
                if want_c07 and level > 0:
                    monitors_c07(log, text, st, "hop %d %s" % (level, hop["ver"]))
                node = cl.get("cons", hop["ver"], hop["hashseed"])
                if node.calls >= 1:
                    log.count("fault_long_lived_consumer_handles_another_document")
                res = node.call("consume", {"text": text})
                log.messages += 1
                cell = "%s->%s" % (pver, hop["ver"])
                log.matrix[cell] = log.matrix.get(cell, 0) + 1
                log.event("consume", di, level, hop["ver"], res.get("ok"), res.get("stage"))
                if not res["ok"]:
                    if want_c15:
                        log.violate("C15", "X4-consumer-fails", "%s:%s" % (res["stage"], res["why"].split(":")[0]),
                                    {"consumer": hop["ver"], "producer": pver, "why": res["why"], "level": level})
                    stt["alive"] = False
                    continue
                if want_c07 and res.get("rt_ok") is False:
                    log.violate("C07", "J4-normalized-document-does-not-reload-equal", norm_path(res.get("rt_where") or "?"), {"consumer": hop["ver"], "level": level})
                cR, cRn = canon_of_text(res["R"]), canon_of_text(res["Rn"])
                log.event("canon", di, level, hubutil.prng.derive(cR), hubutil.prng.derive(cRn))
                if want_c15:
                    if cR != stt["D"]:
                        loc = doc_diff(json.loads(stt["D"]), json.loads(cR)) or "?"
                        log.violate("C15", "X1-reserialization-differs", norm_path(loc), {"consumer": hop["ver"], "producer": pver, "level": level})
                    if cRn != stt["Dn"]:
                        loc = doc_diff(json.loads(stt["Dn"]), json.loads(cRn)) or "?"
                        log.violate("C15", "X2-normalize-differs-across-hosts", norm_path(loc), {"consumer": hop["ver"], "producer": pver, "level": level})
                # X3: duplicate delivery / delivery after restart give byte-identical canonical responses
                again = []
                if f.get("dup"):
                    again.append("duplicate")
                    log.count("fault_duplicate")
                if f.get("restart") is not None:
                    again.append("restart")
                    log.count("fault_restart")
                    if f.get("dup"):
                        log.count("restart_between_duplicates")
                for why in again:
                    n2 = node if why == "duplicate" else cl.restart("cons", hop["ver"], f["restart"])
                    res2 = n2.call("consume", {"text": text})
                    log.messages += 1
                    log.event("consume-again", di, level, why, res2.get("ok"))
                    if want_c15:
                        if not res2["ok"]:
                            log.violate("C15", "X3-depends-on-history", why + ":fails", {"consumer": hop["ver"], "why": res2.get("why")})
                        elif canon_of_text(res2["R"]) != cR or canon_of_text(res2["Rn"]) != cRn:
                            log.violate("C15", "X3-depends-on-history", why, {"consumer": hop["ver"], "producer": pver})
                stt["text"] = res["R"]
                if any(v["property"] == prop for v in log.violations):
                    return log
        return log
    finally:
        log.stats["nodes_spawned"] = log.stats.get("nodes_spawned", 0) + cl.spawned
        cl.close()


# ---------------------------------------------------------------------------------------
# C16: the CLI node
# ---------------------------------------------------------------------------------------

CLI_MODULES = ["this", "colorsys", "keyword", "bisect", "stat", "json.scanner", "fnmatch", "reprlib", "abc", "heapq"]
OUT_FLAGS = ["dis", "dis_after", "source", "no_normalize", "json"]


def gen_cli_plan(seed, tier):
    rng = prng.PRNG(seed)
    ver = rng.choice(hubutil.OLD)
    hs = rng.randint(0, 2 ** 32 - 1)
    same_seed = rng.chance(0.7)
    invalid = rng.chance(0.2)
    flags = {k: rng.chance(0.4) for k in OUT_FLAGS}
    kind = rng.weighted([("file", 3), ("c", 3), ("e", 2), ("m", 1)])
    src = None
    if kind != "m":
        k = rng.weighted([("gen", 3), ("tmpl", 5), ("ex", 2)])
        if k == "gen":
            src = workload.Gen(rng.fork("gen"), (3, 7), "small").program()
        elif k == "tmpl":
            src = workload.template_source(rng, (3, 7))
        else:
            src = rng.choice(workload.REPO_EXAMPLES)[1]
        if "\r" in src or "\x00" in src:
            src = "def f(a, *b):\n    'doc'\n    return a in {1, None}\n"
        if kind in ("c", "e") and len(src.encode("utf-8", "surrogatepass")) > 50000:
            # one argv string is limited to 128 KiB by the kernel (execve fails with E2BIG): a program that large
            # can only be given as a file
            kind = "file"
    plan = {"kind": "cli", "ver": ver, "hashseed": hs, "oracle_hashseed": hs if same_seed else rng.randint(0, 2 ** 32 - 1), "flags": flags,
            "source_kind": kind, "src": src, "module": (rng.choice(CLI_MODULES) if rng.chance(0.5) else rng.choice(["custom:cookie", "custom:pyc", "custom:zip", "custom:pkgpath"])) if kind == "m" else None,
            "warm": rng.chance(0.3), "warm_n": rng.randint(2, 3), "warm_other": {k: rng.chance(0.5) for k in OUT_FLAGS},
            "e_bytes": kind == "e" and rng.chance(0.25), "attached": rng.chance(0.2),
            # how the -e expression builds the program text: the documented helper name `linesep` used at the top
            # level, inside a generator expression / lambda (nested scopes), next to builtins
            "e_shape": rng.choice(["concat", "concat", "join", "genexpr", "lambda", "builtin"])}
    if kind == "file" and not invalid and rng.chance(0.35):
        # durable state between invocations: the SAME path is rewritten with another program of the same
        # size and (simulated clock) the same modification time, then inspected again
        plan["rewrite"] = {"same_mtime": rng.chance(0.7), "same_size": rng.chance(0.8), "times": rng.randint(1, 2)}
    if invalid:
        # the sources given on the command line, in order; "c0"/"e0" are the EMPTY -c / -e source (still one source each)
        pool = ["file", "c", "e", "m", "c0", "e0"]
        n = rng.choice([0, 1, 2, 2, 2, 3, 4])
        if n == 1:
            plan["sources"] = [rng.choice(["c0", "e0"])]
        else:
            picked = []
            while len(picked) < n:
                x = rng.choice(pool)
                if x[0] not in [y[0] for y in picked]:
                    picked.append(x)
            plan["sources"] = picked
        plan["invalid"] = "+".join(plan["sources"]) or "none"
        plan["same_text"] = rng.chance(0.3)
    return plan


def cli_argv(plan, workdir):
    """-> (argv, oracle request or None).  Files are written under workdir."""
    flags = plan["flags"]
    out = []
    for k in OUT_FLAGS:
        if flags.get(k):
            out.append("--" + k.replace("_", "-"))
    kind = plan["source_kind"]
    src = plan.get("src")
    fpath = os.path.join(workdir, "prog.py")
    with open(fpath, "w", encoding="utf-8") as f:
        f.write(src if src is not None else "x = 1\n")
    if "sources" in plan:
        simple = "x = 1"
        args = []
        same = plan.get("same_text")
        for sk in plan["sources"]:
            # with same_text every string-valued source is given the SAME text (a check that deduplicates values miscounts)
            args += {"file": [fpath], "c": ["-c", "os" if same else simple], "e": ["-e", "os" if same else "'y = 2'"], "m": ["-m", "os" if same else "this"],
                     "c0": ["-c", ""], "e0": ["-e", "''"]}[sk]
        argv = out + args
        if plan["sources"] == ["c0"]:
            return argv, {"source_kind": "c", "source": "", "filename": "<string>", "flags": flags}
        if plan["sources"] == ["e0"]:
            return argv, {"source_kind": "e", "source": "", "filename": "<string>", "flags": flags}
        return argv, None
    if kind == "file":
        os.utime(fpath, (1700000000, 1700000000))
        return out + [fpath], {"source_kind": "file", "source": src, "filename": fpath, "flags": flags}
    if kind == "c":
        # the CLI turns the two characters backslash-n of a -c argument into a newline -- and nothing else
        arg = src.replace("\n", "\\n")
        if plan.get("attached") and arg and not arg.startswith("-"):
            return out + ["-c" + arg], {"source_kind": "c", "source": arg.replace("\\n", "\n"), "filename": "<string>", "flags": flags}
        return out + ["-c", arg], {"source_kind": "c", "source": arg.replace("\\n", "\n"), "filename": "<string>", "flags": flags}
    if kind == "e" and plan.get("e_bytes"):
        # the expression evaluates to BYTES carrying a PEP 263 coding cookie (compile() honours it)
        body = "# -*- coding: latin-1 -*-\nzz_s = 'caf\xe9 \xfc'\n" + "".join(ch for ch in src if ord(ch) < 128)
        raw = body.encode("latin-1")
        import base64

        return out + ["-e", repr(raw)], {"source_kind": "e", "source_b64": base64.b64encode(raw).decode("ascii"), "filename": "<string>", "flags": flags}
    if kind == "e":
        lines = src.split("\n")
        shape = plan.get("e_shape", "concat")
        listing = "[" + ", ".join(repr(line) for line in lines) + "]"
        if shape == "join":
            expr = "linesep.join(" + listing + ")"
        elif shape == "genexpr":
            expr = "''.join(zz_l + linesep for zz_l in [" + ", ".join(repr(line) for line in lines[:-1]) + "]) + " + repr(lines[-1])
        elif shape == "lambda":
            expr = "(lambda zz_t: linesep.join(zz_t))(" + listing + ")"
        elif shape == "builtin":
            expr = "str(linesep).join(list(map(str, " + listing + ")))"
        else:
            expr = " + linesep + ".join(repr(line) for line in lines)
        expected_src = os.linesep.join(lines)
        if plan.get("attached"):
            return out + ["-e" + expr], {"source_kind": "e", "source": expected_src, "filename": "<string>", "flags": flags}
        return out + ["-e", expr], {"source_kind": "e", "source": expected_src, "filename": "<string>", "flags": flags}
    mod = plan["module"]
    if mod.startswith("custom:"):
        # modules whose loader is not "a UTF-8 .py file on the path": encoding cookie, source-less .pyc, inside a zip
        mdir = os.path.join(workdir, "mods")
        os.makedirs(mdir, exist_ok=True)
        body = "def zz_f(a, b=2):\n    'doc'\n    return (a, b, %r)\nZZ = zz_f(1)\n"
        extra = [mdir]
        if mod == "custom:cookie":
            name = "zz_cookie_mod"
            with open(os.path.join(mdir, name + ".py"), "wb") as f:
                f.write(("# -*- coding: latin-1 -*-\n" + body % "caf\xe9 \xfc").encode("latin-1"))
        elif mod == "custom:pkgpath":
            # a sub-module only reachable because of what the parent package does when it is imported
            name = "zz_pkg.zz_sub"
            os.makedirs(os.path.join(mdir, "zz_pkg"), exist_ok=True)
            os.makedirs(os.path.join(mdir, "zz_elsewhere"), exist_ok=True)
            with open(os.path.join(mdir, "zz_pkg", "__init__.py"), "w", encoding="utf-8") as f:
                f.write("import os\n__path__.append(os.path.join(os.path.dirname(os.path.dirname(__file__)), 'zz_elsewhere'))\n")
            with open(os.path.join(mdir, "zz_elsewhere", "zz_sub.py"), "w", encoding="utf-8") as f:
                f.write(body % "found through the parent's __path__")
        elif mod == "custom:pyc":
            name = "zz_pyc_only_mod"
            srcp = os.path.join(mdir, name + ".py")
            with open(srcp, "w", encoding="utf-8") as f:
                f.write(body % "sourceless")
            subprocess.run([hubutil.INTERPRETERS[plan["ver"]], "-c", "import py_compile,sys; py_compile.compile(sys.argv[1], cfile=sys.argv[2], doraise=True)",
                            srcp, os.path.join(mdir, name + ".pyc")], check=True, stdout=subprocess.DEVNULL, stderr=subprocess.DEVNULL, timeout=60)
            os.remove(srcp)
        else:
            import zipfile

            name = "zz_zipped_mod"
            zp = os.path.join(mdir, "bundle.zip")
            with zipfile.ZipFile(zp, "w") as z:
                z.writestr(name + ".py", body % "zipped")
            extra = [zp]
        return out + ["-m", name], {"source_kind": "m", "module": name, "flags": flags, "extra_path": extra}
    return out + (["-m" + mod] if plan.get("attached") else ["-m", mod]), {"source_kind": "m", "module": mod, "flags": flags}


def run_cli_process(ver, hashseed, argv, tree, cwd, extra_path=()):
    env = hubutil.worker_env(hashseed, tree)
    env["PYTHONPATH"] = os.pathsep.join([tree, os.path.join(hubutil.VERIF, "shims")] + list(extra_path))
    env["PYTHONDONTWRITEBYTECODE"] = "" 
    cmd = hubutil.no_aslr_prefix() + [hubutil.INTERPRETERS[ver], "-c", "from code_data._cli import main; main()"] + argv
    try:
        p = subprocess.run(cmd, stdout=subprocess.PIPE, stderr=subprocess.PIPE, env=env, cwd=cwd, timeout=120)
    except subprocess.TimeoutExpired:
        raise HarnessError("CLI process timeout")
    return p.returncode, p.stdout.decode("utf-8", "replace"), p.stderr.decode("utf-8", "replace")


ADDR = re.compile(r" at 0x[0-9a-fA-F]+")


def scrub(s):
    return ADDR.sub(" at 0x?", s)


def _split_top(s):
    """Split a repr'd element list on top-level commas (respects (), [], {} and string literals)."""
    out, depth, cur, i, n = [], 0, [], 0, len(s)
    while i < n:
        ch = s[i]
        if ch in "'\"":
            # string literal (possibly with a b prefix already consumed): copy to the closing quote
            j = i + 1
            while j < n and s[j] != ch:
                j += 2 if s[j] == "\\" else 1
            cur.append(s[i:j + 1])
            i = j + 1
            continue
        if ch in "([{":
            depth += 1
        elif ch in ")]}":
            depth -= 1
        if ch == "," and depth == 0:
            out.append("".join(cur).strip())
            cur = []
        else:
            cur.append(ch)
        i += 1
    last = "".join(cur).strip()
    if last:
        out.append(last)
    return out


def canon_fs_text(s):
    """Text with the elements of every `frozenset({...})` repr sorted: the listing order of a frozenset
    depends on the hash seed and on id-based hashes (None, Ellipsis, NaN on 3.10), which nobody controls."""
    marker = "frozenset({"
    out = []
    i = 0
    while True:
        j = s.find(marker, i)
        if j < 0:
            out.append(s[i:])
            break
        out.append(s[i:j])
        # find the matching "})"
        k = j + len(marker)
        depth = 1
        while k < len(s) and depth:
            ch = s[k]
            if ch in "'\"":
                q = k + 1
                while q < len(s) and s[q] != ch:
                    q += 2 if s[q] == "\\" else 1
                k = q + 1
                continue
            if ch in "([{":
                depth += 1
            elif ch in ")]}":
                depth -= 1
            k += 1
        inner = s[j + len(marker):k - 1]
        elems = sorted(canon_fs_text(e) for e in _split_top(inner))
        out.append(marker + ", ".join(elems) + "}")
        i = k
    return "".join(out)


def compare_outputs(got, want_sections):
    """First section (in print order) in which `got` differs from the expected text, modulo object
    addresses and frozenset listing order; None when the whole output agrees."""
    got = scrub(got)
    pos = 0
    for name, text in want_sections:
        text = scrub(text)
        part = got[pos:pos + len(text)]
        pos += len(text)
        if part == text:
            continue
        if name == "json":
            try:
                if canon_of_text(part) == canon_of_text(text):
                    continue
            except ValueError:
                pass
            return name
        if canon_fs_text(part) != canon_fs_text(text):
            return name
    if got[pos:] != "":
        return "trailing-output"
    return None


def exec_cli(plan, tree, log=None):
    log = log or RunLog("C16")
    workdir = os.path.join(hubutil.scratch_dir(), "cli-%d-%d" % (os.getpid(), prng.derive(json.dumps(plan, sort_keys=True)) % 10 ** 9))
    os.makedirs(workdir, exist_ok=True)
    cl = Cluster(tree)
    try:
        argv, oracle_req = cli_argv(plan, workdir)
        extra_path = (oracle_req or {}).get("extra_path", [])
        status, stdout, stderr = run_cli_process(plan["ver"], plan["hashseed"], argv, tree, workdir, extra_path)
        log.messages += 1
        inv = plan.get("invalid")
        if plan.get("module") and str(plan["module"]).startswith("custom:") and plan["source_kind"] == "m" and "sources" not in plan:
            log.count("fault_module_with_unusual_loader_" + plan["module"].split(":")[1])
        log.count("cli_invocations")
        log.count("cli_source_" + (inv and "invalid:" + inv or plan["source_kind"]))
        log.event("cli", plan["ver"], [a.replace(workdir, "<wd>") for a in argv[:6]], status, len(scrub(stdout.replace(workdir, "<wd>"))))
        for k in OUT_FLAGS:
            if plan["flags"].get(k):
                log.count("cli_flag_" + k)
        if oracle_req is None:
            # not exactly one source: usage error, nothing on stdout
            log.count("fault_invalid_source_combination")
            if plan.get("same_text") and len(plan["sources"]) >= 2:
                log.count("fault_invalid_sources_with_identical_text")
            if status != 2 or stdout != "":
                log.violate("C16", "L1-usage-error-expected", "+".join(sorted(x[0] for x in plan["sources"])) or "none",
                            {"status": status, "stdout": stdout[:200], "argv": [a.replace(workdir, "<wd>") for a in argv], "sources_in_order": plan["sources"]})
            return log
        if plan.get("attached") and plan["source_kind"] in ("c", "e", "m") and "sources" not in plan:
            log.count("fault_value_attached_to_short_option")
        if plan.get("e_bytes") and plan["source_kind"] == "e" and "sources" not in plan:
            log.count("fault_e_expression_evaluates_to_bytes_with_coding_cookie")
        if plan["source_kind"] == "e" and not plan.get("e_bytes") and "sources" not in plan and plan.get("e_shape") in ("genexpr", "lambda"):
            log.count("fault_e_expression_uses_linesep_in_nested_scope")
        if inv:
            log.count("fault_empty_source")
        elif plan["source_kind"] in ("c", "e") and "\\n" in (plan.get("src") or ""):
            log.count("fault_source_with_literal_backslash_n")
        if plan["hashseed"] != plan["oracle_hashseed"]:
            log.count("fault_oracle_hash_seed_differs")
        oracle = cl.get("oracle", plan["ver"], plan["oracle_hashseed"])
        exp = oracle.call("cli_expect", oracle_req)
        if not exp["ok"]:
            log.count("oracle_declined:" + exp["why"].split(":")[0])
            log.event("oracle-declined", exp["why"])
            if exp["why"].startswith("api-raises"):
                return log  # the API itself fails on this program: not a CLI matter
            if status == 0:
                log.violate("C16", "L1-exit-0-on-invalid-program", "compile", {"argv": argv})
            return log
        if status != 0:
            log.violate("C16", "L1-nonzero-exit-on-valid-program", (inv and "empty-" + inv[0] or plan["source_kind"]) + ":" + classify_stderr(stderr),
                        {"status": status, "stderr": stderr[-300:], "argv": argv[:8]})
            return log
        expected = "".join(t for _, t in exp["sections"])
        same_seed = plan["hashseed"] == plan["oracle_hashseed"]
        if scrub(stdout) == scrub(expected):
            log.count("cli_byte_identical")
        else:
            bad = compare_outputs(stdout, exp["sections"])
            log.event("compare", bad, same_seed)
            if bad is None:
                log.count("cli_identical_modulo_frozenset_order")
            else:
                inv = {"repr": "L2-printed-data-differs", "json": "L3-json-differs"}.get(bad, "L4-section-differs")
                loc = ("no-normalize" if plan["flags"].get("no_normalize") else "normalized") if bad in ("repr", "json") else bad
                log.violate("C16", inv, loc, {"argv": [a.replace(workdir, "<wd>") for a in argv[:8]], "section": bad})
                return log
        if plan["flags"].get("json"):
            # L3 proper: the printed JSON document loads back to the same CodeData
            m = re.search(r"^CodeData\(.*$", stdout, re.M)
            jm = re.search(r"^\{$.*?^\}$", stdout[m.end():] if m else "", re.M | re.S)
            sem = oracle.call("cli_semantic", {"repr_line": None, "json_text": jm.group(0) if jm else None})
            log.count("cli_json_loaded_back")
            if jm is None or not sem.get("json_equal"):
                log.violate("C16", "L3-json-does-not-load-to-same-data", "json", {"argv": argv[:8], "why": sem.get("json_why")})
                return log
        if plan["flags"].get("dis_after") and exp.get("same_instructions") is False:
            log.violate("C16", "L4b-dis-after-not-same-instructions", "normalized" if not plan["flags"].get("no_normalize") else "no-normalize", {"argv": argv[:8]})
            return log
        if plan["flags"].get("dis_after") and plan["flags"].get("dis") and plan["flags"].get("no_normalize"):
            log.count("dis_after_vs_dis_textual")
            expd = dict((n, t) for n, t in exp["sections"])
            if scrub(expd.get("dis", "")) != scrub(expd.get("dis_after", "")):
                # with --no-normalize the round trip must print the very same disassembly
                log.count("dis_after_text_differs_from_dis_no_normalize")
        # L6: durable state between invocations - the same path, rewritten, must be read afresh
        rw = plan.get("rewrite")
        if rw and oracle_req.get("source_kind") == "file":
            cur = plan["src"]
            for step in range(rw["times"]):
                nxt = variant_source(cur, rw["same_size"], step)
                if nxt is None or nxt == cur:
                    break
                fpath = oracle_req["filename"]
                with open(fpath, "w", encoding="utf-8") as f:
                    f.write(nxt)
                t = 1700000000 if rw["same_mtime"] else 1700000000 + 100 * (step + 1)
                os.utime(fpath, (t, t))
                req2 = dict(oracle_req, source=nxt)
                exp2 = oracle.call("cli_expect", req2)
                if not exp2["ok"]:
                    # the variant is not a valid program (e.g. the renamed parameter now duplicates another one):
                    # put back what the path held, so that later invocations are compared with the right text
                    log.count("rewrite_variant_declined")
                    with open(fpath, "w", encoding="utf-8") as f:
                        f.write(cur)
                    t = 1700000000 if (rw["same_mtime"] or step == 0) else 1700000000 + 100 * step
                    os.utime(fpath, (t, t))
                    break
                st2, out2, err2 = run_cli_process(plan["ver"], plan["hashseed"], argv, tree, workdir, extra_path)
                log.messages += 1
                log.count("fault_rewrite_same_path")
                if rw["same_mtime"] and len(nxt.encode("utf-8")) == len(cur.encode("utf-8")):
                    log.count("fault_rewrite_same_size_same_mtime")
                log.event("rewrite", step, st2, len(scrub(out2.replace(workdir, "<wd>"))))
                bad = "exit-status" if st2 != 0 else compare_outputs(out2, exp2["sections"])
                if bad is not None:
                    log.violate("C16", "L6-stale-result-after-file-rewrite", bad if bad in ("exit-status", "source") else "program-sections",
                                {"section": bad, "same_mtime": rw["same_mtime"], "step": step, "argv": [a.replace(workdir, "<wd>") for a in argv[:8]]})
                    return log
                cur = nxt
                exp, stdout = exp2, out2  # what the path holds now
        # L5: warm re-invocation == fresh processes
        if plan.get("warm"):
            warm = cl.get("warm", plan["ver"], plan["hashseed"])
            # a DIFFERENT invocation in between (other flags, another kind of source): parser/namespace state
            # left behind by one main() call must not leak into the next
            other_flags = plan.get("warm_other") or {}
            argv_b = ["--" + k.replace("_", "-") for k in OUT_FLAGS if other_flags.get(k)]
            if plan["source_kind"] == "c" or "sources" in plan:
                opath = os.path.join(workdir, "other.py")
                with open(opath, "w", encoding="utf-8") as f:
                    f.write("zz_other = (1, 'b')\n")
                argv_b += [opath]
                req_b = {"source_kind": "file", "source": "zz_other = (1, 'b')\n", "filename": opath, "flags": other_flags}
            else:
                argv_b += ["-c", "zz_other = (1, 'b')"]
                req_b = {"source_kind": "c", "source": "zz_other = (1, 'b')", "filename": "<string>", "flags": other_flags}
            exp_b = oracle.call("cli_expect", req_b)
            seq = [argv] * plan["warm_n"]
            want = [exp] * plan["warm_n"]
            if exp_b.get("ok"):
                seq = [argv, argv_b] + [argv] * (plan["warm_n"] - 1)
                want = [exp, exp_b] + [exp] * (plan["warm_n"] - 1)
                log.count("fault_warm_sequence_with_other_invocation")
            r = warm.call("cli_warm", {"argvs": seq, "cwd": workdir, "extra_path": extra_path})
            log.count("fault_warm_reinvocation", len(seq))
            for i, (o, w_exp) in enumerate(zip(r["outs"], want)):
                if o["status"] != 0 or compare_outputs(o["stdout"], w_exp["sections"]) is not None:
                    log.violate("C16", "L5-warm-invocation-differs", "invocation-%d" % (i + 1) if i < 1 else "invocation-n", {"status": o["status"], "argv": [a.replace(workdir, "<wd>") for a in seq[i][:8]]})
                    return log
        return log
    finally:
        cl.close()
        try:
            import shutil

            shutil.rmtree(workdir, ignore_errors=True)
        except Exception:
            pass


def variant_source(src, same_size, step):
    """Another program at the same path: one digit (or one identifier letter) changed, same byte length;
    or, when the size may differ, one more statement appended."""
    if not same_size:
        return src + ("\n" if not src.endswith("\n") else "") + "zz_rewritten_%d = %d\n" % (step, step + 41)
    m = re.search(r"(?<![\w.])([1-8])(?![\w.xXoObBjJeE])", src)
    if m:
        d = str(int(m.group(1)) + 1)
        return src[:m.start(1)] + d + src[m.end(1):]
    m = re.search(r"\b(foo|bar|baz|data|item|value|obj)\b", src)
    if m:
        w = m.group(1)
        return src[:m.start(1)] + w[:-1] + ("q" if w[-1] != "q" else "z") + src[m.end(1):]
    return None


def classify_stderr(s):
    m = re.findall(r"^(\w+(?:Error|Exception))\b", s, re.M)
    if m:
        return m[-1]
    if "usage:" in s:
        return "usage"
    return "other"


# ---------------------------------------------------------------------------------------
# run / minimise / replay
# ---------------------------------------------------------------------------------------

def execute_plan(plan, tree, prop):
    if plan["kind"] == "exchange":
        return exec_exchange(plan, tree, prop)
    return exec_cli(plan, tree)


def run_one(args):
    prop, tier, tree, index, seed = args
    hubutil._SCRATCH = os.path.dirname(tree)  # the forked hub worker shares the parent's scratch dir
    try:
        plan = gen_exchange_plan(seed, tier, prop) if prop in ("C15", "C07") else gen_cli_plan(seed, tier)
        log = execute_plan(plan, tree, prop)
        viols = [v for v in log.violations if v["property"] == prop]
        fired = sum(v for k, v in log.stats.items() if k.startswith("fault_"))
        return {"run": index, "seed": seed, "digest": log.digest(), "stats": log.stats, "matrix": log.matrix, "messages": log.messages,
                "violations": viols, "plan": plan if (viols or index % 97 == 0) else None, "nontrivial": log.messages >= 1 and fired >= 1,
                "fault_free": bool(plan.get("fault_free"))}
    except HarnessError as e:
        return {"run": index, "seed": seed, "harness_error": str(e)}


def shrink_plan(plan, tree, prop, target, budget_s=45.0):
    """Greedy plan minimisation: drop documents, hops, faults, producers' unused items; shrink sources by line chunks."""
    deadline = time.time() + budget_s

    def holds(p):
        try:
            log = execute_plan(p, tree, prop)
        except HarnessError:
            return False
        return target in [v["fingerprint"] for v in log.violations]

    if not holds(plan):
        return None
    cur = copy.deepcopy(plan)
    if cur["kind"] == "exchange":
        changed = True
        while changed and time.time() < deadline:
            changed = False
            for di in range(len(cur["docs"]) - 1, -1, -1):
                if len(cur["docs"]) > 1:
                    c = copy.deepcopy(cur)
                    del c["docs"][di]
                    if holds(c):
                        cur = c
                        changed = True
                        continue
                d = cur["docs"][di]
                for hi in range(len(d["hops"]) - 1, -1, -1):
                    c = copy.deepcopy(cur)
                    del c["docs"][di]["hops"][hi]
                    if holds(c):
                        cur = c
                        changed = True
                        break
                for hi in range(len(cur["docs"][di]["hops"])):
                    for k in list(cur["docs"][di]["hops"][hi].get("faults", {})):
                        c = copy.deepcopy(cur)
                        del c["docs"][di]["hops"][hi]["faults"][k]
                        if holds(c):
                            cur = c
                            changed = True
                if cur["docs"][di].get("j3_transcode"):
                    c = copy.deepcopy(cur)
                    c["docs"][di]["j3_transcode"] = None
                    if holds(c):
                        cur = c
                        changed = True
        # drop producers/items no document refers to any more
        used = set((d["producer"], d["item"]) for d in cur["docs"])
        for pi, p in enumerate(cur["producers"]):
            for ii in range(len(p["items"])):
                if (pi, ii) not in used:
                    p["items"][ii] = {"prog": {"kind": "unused", "name": "unused", "src": "pass\n"}}
        # graft and source shrinking
        for p in cur["producers"]:
            for item in p["items"]:
                if time.time() > deadline:
                    break
                if item.get("graft"):
                    c = copy.deepcopy(cur)
                    for p2 in c["producers"]:
                        for it2 in p2["items"]:
                            if it2 == item:
                                it2.pop("graft", None)
                    if holds(c):
                        cur = c
                        item.pop("graft", None)
        cur = shrink_sources(cur, holds, deadline, lambda pl: [it["prog"] for p in pl["producers"] for it in p["items"]], tree)
    else:
        for k in list(cur["flags"]):
            if cur["flags"][k] and time.time() < deadline:
                c = copy.deepcopy(cur)
                c["flags"][k] = False
                if holds(c):
                    cur = c
        if cur.get("warm") and time.time() < deadline:
            c = copy.deepcopy(cur)
            c["warm"] = False
            if holds(c):
                cur = c
        if cur.get("src"):
            box = {"kind": "cli", "name": "cli", "src": cur["src"]}

            def progs(pl):
                return [box]

            def holds_cli(pl):
                c = copy.deepcopy(pl)
                c["src"] = box["src"]
                return holds(c)

            shrink_sources(cur, holds_cli, deadline, progs, tree)
            cur["src"] = box["src"]
    return cur


def shrink_sources(plan, holds, deadline, progs_of, tree):
    """Line-chunk ddmin of every embedded program source (a candidate that no longer compiles simply fails)."""
    for idx in range(len(progs_of(plan))):
        prog = progs_of(plan)[idx]
        if "src" not in prog:
            if "relpath" in prog:
                try:
                    with open(os.path.join(tree, prog["relpath"]), "rb") as f:
                        prog["src"] = f.read().decode("utf-8", "replace")
                    prog.pop("relpath")
                    if not holds(plan):
                        return plan
                except OSError:
                    continue
            else:
                continue
        lines = prog["src"].split("\n")
        n = 2
        while len(lines) >= 2 and time.time() < deadline:
            chunk = max(1, (len(lines) + n - 1) // n)
            hit = None
            for i in range(0, len(lines), chunk):
                cand = lines[:i] + lines[i + chunk:]
                old = prog["src"]
                prog["src"] = "\n".join(cand)
                if holds(plan):
                    hit = cand
                    break
                prog["src"] = old
                if time.time() > deadline:
                    break
            if hit is not None:
                lines = hit
                n = max(n - 1, 2)
            else:
                if chunk == 1:
                    break
                n = min(n * 2, len(lines))
        prog["src"] = "\n".join(lines)
    return plan


def replay(rec, tree):
    log = execute_plan(rec["plan"], tree, rec["property"])
    return [v["fingerprint"] for v in log.violations]


RULES = {
    "C15": "One evaluation = one seeded exchange run: 1-3 producer nodes (real CPython 3.7-3.10 processes with seeded hash seeds) compile seeded programs and emit "
           "to_json_data documents (raw and normalized); each document travels a seeded route of 1-3 consumer hops over real 3.7-3.13 processes; the hub's transport "
           "duplicates, reorders across documents, transcodes (json options, orjson), shuffles key order and frozenset listings, and restarts the destination with a new "
           "hash seed. Monitors at every hop: canonical re-serialization == producer's document (X1), canonical normalized form identical on every host (X2), duplicate / "
           "post-restart deliveries give identical canonical responses (X3), consumers that cannot build code objects (3.11+) still load, normalize and dump (X4). "
           "NON-TRIVIAL = >= 1 delivered message and >= 1 transport fault fired; distinct = distinct run digest among those.",
    "C07": "One evaluation = one seeded exchange run (as C15) with the C07 monitors on every message entering the transport: J1 strict JSON (types, string keys, finite "
           "floats, |int| <= 2^53-1, UTF-8 encodable, json and orjson agree, re-emits with allow_nan=False), J2 valid against the exported JSON_SCHEMA under fastjsonschema and "
           "jsonschema, J3 after a real serialize/parse cycle through a seeded transcoder the text reloads (a) on the producer, which still holds x, to a value == x with equal "
           "hash, and (b) on a FRESH node of the producing version with another hash seed to data and to_code() with the strict fingerprints the producer reported. "
           "NON-TRIVIAL = >= 1 delivered message and >= 1 transport fault (transcode/shuffle/duplicate/restart) fired; distinct = distinct run digest among those.",
    "C16": "One evaluation = one seeded CLI run: a real `python -c 'from code_data._cli import main; main()' ...` process on a seeded interpreter (3.7-3.10) and hash seed, "
           "seeded source kind (file, -c with \\n escapes, -e expression, -m stdlib module), seeded subset of --dis --dis-after --source --no-normalize --json, or an invalid "
           "source combination (none, two, three, four sources; the empty -c / -e source, which is ONE source); an API oracle node of the same version (equal or different hash "
           "seed) renders the expected stdout from the API result; checks L1 exit status, L2 printed CodeData, L3 JSON loads back, L4/L4b --dis-after, L5 warm re-invocation "
           "in one process == fresh processes, L6 the same path rewritten with another program of the same size and modification time (the harness sets mtimes: "
           "simulated clock granularity) and inspected again prints the new program. NON-TRIVIAL = a fault fired (invalid/empty source combination, warm re-invocation, oracle under a different hash seed); distinct = distinct run digest among those.",
}


def run(prop, tier):
    t0 = time.time()
    seed = hubutil.base_seed()
    hubutil.check_interpreters(hubutil.ALL)
    tree = hubutil.scratch_tree()
    known = hubutil.known_fingerprints(prop)
    n = PLAN[prop][tier]
    budget = float(os.environ.get("VERIF_BUDGET_S", DEFAULT_BUDGET[tier]))
    n = max(32, int(n * budget / DEFAULT_BUDGET[tier]))
    hubutil.no_aslr_prefix()
    jobs = [(prop, tier, tree, i, prng.derive(seed, prop, "B", i)) for i in range(n)]
    print("[%s] tier=%s seed=%d runs=%d hub-workers=%d" % (prop, tier, seed, n, WORKERS))
    ctx = multiprocessing.get_context("fork")
    with ProcessPoolExecutor(max_workers=WORKERS, mp_context=ctx) as ex:
        results = list(ex.map(run_one, jobs, chunksize=4))
    herr = [r for r in results if "harness_error" in r]
    if herr:
        raise HarnessError("%d runs had harness errors, first: %s" % (len(herr), herr[0]["harness_error"]))
    # determinism self-test: the first 6 runs again, sequentially in this process
    n_checked = 0
    for r in results[:6]:
        again = run_one((prop, tier, tree, r["run"], r["seed"]))
        n_checked += 1
        if again.get("digest") != r["digest"]:
            raise HarnessError("determinism self-test failed: run %d gave digest %s then %s" % (r["run"], r["digest"], again.get("digest")))
    hubutil.dump_digests(prop, [(r["run"], r["digest"]) for r in results])
    stats, matrix = {}, {}
    for r in results:
        hubutil.merge_counts(stats, r["stats"])
        hubutil.merge_counts(matrix, r["matrix"])
    nontrivial = [r for r in results if r["nontrivial"]]
    distinct_nontrivial = len(set(r["digest"] for r in nontrivial))
    exit_code = 0
    seen_known, new = {}, {}
    for r in results:
        for v in r["violations"]:
            f = v["fingerprint"]
            if f in known:
                seen_known[f] = seen_known.get(f, 0) + 1
            elif f not in new:
                new[f] = (r, v)
    for f in sorted(seen_known):
        print("KNOWN-FINDING: property=%s %s (%s; hit in %d runs)" % (prop, f, known[f].get("what", ""), seen_known[f]))
    reported, unconfirmed = 0, 0
    os.makedirs(os.path.join(hubutil.VERIF, "replays"), exist_ok=True)
    for f in sorted(new)[:6]:
        r, v = new[f]
        small = shrink_plan(r["plan"], tree, prop, f)
        plan = small or r["plan"]
        rec = {"property": prop, "engine": "B", "fingerprint": f, "base_seed": seed, "run_index": r["run"], "run_seed": r["seed"], "tier": tier, "detail": v, "plan": plan}
        if f not in replay(rec, tree):
            unconfirmed += 1
            continue
        path = os.path.join(hubutil.VERIF, "replays", "%s-%s-run%d.json" % (prop, prng.derive(f) % (10 ** 8), r["run"]))
        with open(path, "w") as fh:
            json.dump(rec, fh, indent=1)
        print("VIOLATION property=%s replay=%s" % (prop, path))
        print("  fingerprint=%s run=%d detail=%s" % (f, r["run"], json.dumps(v["detail"])[:300]))
        reported += 1
        exit_code = 1
    if unconfirmed and not reported:
        print("HARNESS-ERROR: %d violation(s) did not reproduce on replay" % unconfirmed)
        exit_code = 2
    wall = time.time() - t0
    samples = [{"run": r["run"], "seed": r["seed"], "plan": trim_plan(r["plan"])} for r in results if r.get("plan") and not r["violations"]][:3]
    faults = {k: v for k, v in stats.items() if k.startswith("fault_")}
    coverage = {
        "evaluations": len(results), "distinct_nontrivial": distinct_nontrivial, "rule": RULES[prop], "samples": samples or [{"note": "no sample kept"}],
        "runs_nontrivial": len(nontrivial), "runs_fault_free_control": sum(1 for r in results if r.get("fault_free")),
        "runs_per_hour": int(len(results) / max(wall, 1e-6) * 3600), "messages_delivered": sum(r["messages"] for r in results),
        "messages_per_hour": int(sum(r["messages"] for r in results) / max(wall, 1e-6) * 3600),
        "seeds": {"base": seed, "first_run_seed": jobs[0][4], "last_run_seed": jobs[-1][4], "derivation": "run_seed(i)=sha256(VERIF_SEED,property,'B',i)[:8]"},
        "simulated_time": "none - nodes have no clock; logical message steps only", "faults_fired": faults, "reach_probes_and_counters": stats,
        "producer_x_consumer_matrix": matrix, "determinism_selftest_runs": n_checked, "known_findings_hit": seen_known, "components": hubutil.REAL_STUB,
        "aslr_disabled_for_nodes": bool(hubutil.no_aslr_prefix()), "exhaustive": False,
    }
    assumptions = ["stdout/stdin of every node pinned to UTF-8", "JSON text is never lost, truncated or bit-corrupted in transit: the properties promise nothing about broken documents",
                   "integers whose decimal form exceeds the interpreter's int<->str limit (4300 digits) are outside the explored space",
                   "interpreters run without -O"]
    hubutil.write_evidence(prop, tier, seed, "exploration", coverage, assumptions, wall, reported)
    print("[%s] runs=%d nontrivial=%d distinct_nontrivial=%d messages=%d faults=%s wall=%.1fs exit=%d" % (
        prop, len(results), len(nontrivial), distinct_nontrivial, coverage["messages_delivered"], json.dumps(faults, sort_keys=True), wall, exit_code))
    return exit_code


def trim_plan(plan):
    p = copy.deepcopy(plan)
    for pr in p.get("producers", []):
        for it in pr["items"]:
            if "src" in it["prog"] and len(it["prog"]["src"]) > 300:
                it["prog"]["src"] = it["prog"]["src"][:300] + "...<truncated>"
    if p.get("src") and len(p["src"]) > 300:
        p["src"] = p["src"][:300] + "...<truncated>"
    return p
