"""Hub for engine C (header-fault store; C11)."""
import json
import os
import time
from concurrent.futures import ThreadPoolExecutor

from . import hubutil, prng
from .hubutil import HarnessError

WORKERS = int(os.environ.get("VERIF_WORKERS", "16"))
PLAN = {"quick": (256, 10, 0), "thorough": (400, 16, 0)}  # batches, runs per batch, (unused)
DEFAULT_BUDGET = {"quick": 60.0, "thorough": 1200.0}

RULE = ("Fault enumeration over stored headers: for every base code object (every code object, nested included, of a seeded program; module, class "
        "body, plain/generator/coroutine/async-generator functions, lambdas, comprehensions, closures, every signature shape) the store alters one "
        "header word before the read: co_flags XOR every single bit 0..30 (exhaustive per base object), seeded 2-6 bit masks mixing known and "
        "unknown bits, every delta -2..+3 on each argument count, every swap of two counts, deltas on co_nlocals / co_stacksize / co_firstlineno, seeded flag+count combinations; alterations CPython "
        "itself refuses to construct are counted separately. Oracle: from_code raises, or to_code() reproduces every header field exactly. Flag "
        "words alone: every subset of the interpreter's known flags (2^18; exhaustive in thorough, seeded 5% sample in quick) must convert "
        "losslessly; every single unknown bit and seeded known/unknown mixtures must raise or be preserved, judged cold and warm (IntFlag "
        "pseudo-member cache). History with faults: an encode/decode of a base object is interrupted (KeyboardInterrupt) at every line inside the flag / "
        "argument-count conversion code, after which the unaltered base objects must still round-trip their exact headers. A case is NON-TRIVIAL when CPython accepted the altered header (so the library was actually exercised); distinct = "
        "distinct (base object strict fingerprint, alteration) pairs plus distinct flag words.")


def fingerprints_of_job_result(res):
    out = []
    for run in res.get("runs", []):
        out.extend(v["fingerprint"] for v in run["violations"])
    if "flagwords" in res:
        out.extend(v["fingerprint"] for v in res["flagwords"]["violations"])
    return out


def replay(rec, tree):
    hubutil.check_interpreters([rec["interp"]])
    if "job" in rec["record"]:
        # cross-run state: the violation needs what earlier conversions in the same process left behind
        job = dict(rec["record"]["job"], tree=tree)
        res = hubutil.run_worker(rec["interp"], rec["hashseed"], job, timeout=1800)
        return sorted(set(fingerprints_of_job_result(res)))
    job = {"engine": "C", "mode": "replay", "tree": tree, "tier": rec.get("tier", "quick"), "record": rec["record"], "py_flags": rec.get("py_flags", [])}
    res = hubutil.run_worker(rec["interp"], rec["hashseed"], job, timeout=300)
    return res["got"]


def run(prop, tier):
    t0 = time.time()
    seed = hubutil.base_seed()
    hubutil.check_interpreters(hubutil.OLD)
    tree = hubutil.scratch_tree()
    known = hubutil.known_fingerprints(prop)
    nb, bs, parts = PLAN[tier]
    budget = float(os.environ.get("VERIF_BUDGET_S", DEFAULT_BUDGET[tier]))
    nb = max(8, int(nb * budget / DEFAULT_BUDGET[tier]))
    rot = prng.derive(seed, prop, "rot") % 4
    jobs = []
    for b in range(nb):
        runs = [[i, prng.derive(seed, prop, "C", i)] for i in range(b * bs, (b + 1) * bs)]
        # configuration knob: every fifth batch runs its interpreter with -O (assert statements compiled away)
        pyflags = ["-O"] if b % 5 == 4 else []
        jobs.append({"kind": "batch", "b": b, "interp": hubutil.OLD[(b + rot) % 4], "hashseed": prng.derive(seed, prop, "hs", b) % (2 ** 32),
                     "job": {"engine": "C", "mode": "batch", "tree": tree, "tier": tier, "runs": runs, "known": sorted(known), "py_flags": pyflags,
                             "keep_ops_for": [runs[0][0]] if b < 4 else []}})
    exhaustive_on = []
    for interp in hubutil.OLD:
        fast = interp in ("3.9", "3.10")  # IntFlag conversion cost is quadratic in words seen per process on 3.7/3.8
        specs = []
        if tier == "thorough" and fast:
            step = (1 << 18) // 16
            specs = [{"kind": "range", "lo": k * step, "hi": (k + 1) * step} for k in range(16)]
            exhaustive_on.append(interp)
        elif tier == "thorough":
            specs = [{"kind": "lowweight", "part": k, "parts": 8} for k in range(8)] + [{"kind": "sample", "n": 300, "salt": k} for k in range(56)]
        elif fast:
            specs = [{"kind": "sample", "n": 6500, "salt": k} for k in range(2)]
        else:
            specs = [{"kind": "lowweight", "part": k, "parts": 8} for k in range(8)]
        specs[0]["mixed"] = 40 if tier == "quick" else 300
        for k, spec in enumerate(specs):
            jobs.append({"kind": "flagwords", "interp": interp, "hashseed": prng.derive(seed, prop, "fw", interp, k) % (2 ** 32),
                         "job": {"engine": "C", "mode": "flagwords", "tree": tree, "tier": tier, "seed": seed, "spec": spec}})
    print("[%s] tier=%s seed=%d batches=%d runs=%d flag-word jobs=%d" % (prop, tier, seed, nb, nb * bs, len(jobs) - nb))

    def do(j):
        return hubutil.run_worker(j["interp"], j["hashseed"], j["job"], timeout=1800 if tier == "thorough" else 400)

    with ThreadPoolExecutor(max_workers=WORKERS) as ex:
        results = list(ex.map(do, jobs))

    # determinism self-test: first batch of each interpreter again, fresh process
    n_checked = 0
    for interp in hubutil.OLD:
        j = next((x for x in jobs if x["kind"] == "batch" and x["interp"] == interp), None)
        if j is None:
            continue
        again = do(j)
        orig = results[jobs.index(j)]
        a = [(r["run"], r["tested"], r["verdicts"], sorted(v["fingerprint"] for v in r["violations"])) for r in orig["runs"]]
        b = [(r["run"], r["tested"], r["verdicts"], sorted(v["fingerprint"] for v in r["violations"])) for r in again["runs"]]
        n_checked += len(a)
        if a != b:
            raise HarnessError("determinism self-test failed for engine C batch on %s" % interp)

    tested = rejected = objects = interrupt_points = held_encodes = 0
    classes, verdicts, unknown_hit = {}, {}, {}
    distinct = {}
    viols = []
    samples = []
    per_interp = {}
    fw = {"enumerated_words": 0, "known_words": 0, "unknown_words": 0, "lossless": 0, "raised": 0, "cold_warm_disagreements": 0, "exhaustive_known_subsets_on": exhaustive_on, "lowweight_exhaustive_on": [i for i in hubutil.OLD if i not in exhaustive_on or True], "per_interp": {}}
    for j, r in zip(jobs, results):
        if j["kind"] == "batch":
            for run in r["runs"]:
                tested += run["tested"]
                rejected += run["rejected_by_cpython"]
                objects += run["objects"]
                interrupt_points += run.get("interrupt_points", 0)
                held_encodes += run.get("held_data_encodes", 0)
                hubutil.merge_counts(classes, run["classes"])
                hubutil.merge_counts(verdicts, run["verdicts"])
                for b, n in run["bits_unknown_hit"].items():
                    unknown_hit[j["interp"] + ":bit" + b] = unknown_hit.get(j["interp"] + ":bit" + b, 0) + n
                for d, n in run["distinct_keys"]:
                    distinct[(j["interp"], d)] = n
                per_interp[j["interp"]] = per_interp.get(j["interp"], 0) + run["tested"]
                for v in run["violations"]:
                    v["_interp"], v["_hashseed"], v["_run"], v["_seed"], v["_job"] = j["interp"], j["hashseed"], run["run"], run["seed"], j["job"]
                    viols.append(v)
                if "sample" in run:
                    samples.append(dict(run["sample"], interp=j["interp"], run=run["run"], seed=run["seed"]))
        else:
            f = r["flagwords"]
            for k in ("known_words", "unknown_words", "lossless", "raised", "cold_warm_disagreements"):
                fw[k] += f[k]
            if j["job"]["spec"]["kind"] in ("range", "lowweight"):
                fw["enumerated_words"] += f["known_words"]
            pi = fw["per_interp"].setdefault(j["interp"], {"known_words": 0, "unknown_words": 0, "n_known_flags": f["n_known_flags"], "unknown_bits": f["unknown_bits"]})
            pi["known_words"] += f["known_words"]
            pi["unknown_words"] += f["unknown_words"]
            for v in f["violations"]:
                v["_interp"], v["_hashseed"], v["_job"] = j["interp"], j["hashseed"], j["job"]
                viols.append(v)

    hubutil.dump_digests(prop, [(run["run"], "%d/%s" % (run["tested"], json.dumps(run["verdicts"], sort_keys=True)))
                                for j, r in zip(jobs, results) if j["kind"] == "batch" for run in r["runs"]])
    exit_code = 0
    seen_known = {}
    new = {}
    for v in viols:
        f = v["fingerprint"]
        if f in known:
            seen_known[f] = seen_known.get(f, 0) + 1
        elif f not in new:
            new[f] = v
    for f in sorted(seen_known):
        print("KNOWN-FINDING: property=%s %s (%s; hit %d times)" % (prop, f, known[f].get("what", ""), seen_known[f]))
    reported = 0
    os.makedirs(os.path.join(hubutil.VERIF, "replays"), exist_ok=True)
    unconfirmed = 0
    for f in sorted(new)[:8]:
        v = new[f]
        if v.get("history"):
            record = {"job": dict(v["_job"], tree="<scratch>")}
        elif "word" in v:
            record = {"word": v["word"]}
        else:
            prog = v["prog"]
            record = {"prog": prog, "optimize": v["optimize"], "object_index": v["object_index"], "alteration": v["alteration"]}
        rec = {"property": prop, "engine": "C", "fingerprint": f, "interp": v["_interp"], "hashseed": v["_hashseed"], "tier": tier, "base_seed": seed,
               "detail": {k: x for k, x in v.items() if not k.startswith("_") and k != "prog"}, "record": record,
               "py_flags": v.get("_job", {}).get("py_flags", [])}
        got = replay(rec, tree)
        if f not in got:
            # second level: re-execute the whole original job (cross-run / cross-conversion state)
            rec["record"] = {"job": dict(v["_job"], tree="<scratch>")}
            rec["cross_run_state"] = True
            got = replay(rec, tree)
            if f not in got:
                unconfirmed += 1
                continue
        path = os.path.join(hubutil.VERIF, "replays", "%s-%s.json" % (prop, prng.derive(f) % (10 ** 8)))
        with open(path, "w") as fh:
            json.dump(rec, fh, indent=1)
        print("VIOLATION property=%s replay=%s" % (prop, path))
        print("  fingerprint=%s interp=%s detail=%s" % (f, v["_interp"], json.dumps(rec["detail"])[:300]))
        reported += 1
        exit_code = 1
    if unconfirmed and not reported:
        print("HARNESS-ERROR: %d violation(s) did not reproduce in a fresh process" % unconfirmed)
        exit_code = 2

    wall = time.time() - t0
    evaluations = tested + fw["known_words"] + fw["unknown_words"]
    # sampled flag words may repeat, so only the enumerated (range / low-weight) ones are claimed distinct
    distinct_nontrivial = sum(distinct.values()) + fw["enumerated_words"]
    coverage = {
        "evaluations": evaluations,
        "distinct_nontrivial": distinct_nontrivial,
        "rule": RULE,
        "samples": samples[:4] or [{"note": "no sample kept"}],
        "exhaustive": False,
        "exhaustive_parts": {"single_flag_bits_0_30_per_base_object": True, "count_deltas_and_swaps_per_base_object": True,
                             "known_flag_subsets_2^18": exhaustive_on,
                             "known_flag_subsets_with_at_most_3_set_or_3_clear": [i for i in hubutil.OLD if i not in exhaustive_on]},
        "base_objects": objects,
        "distinct_base_objects": len(distinct),
        "header_alterations_accepted_by_cpython": tested,
        "header_alterations_refused_by_cpython": rejected,
        "interrupted_history_abort_points": interrupt_points,
        "held_data_encoded_after_later_alterations_and_interruptions": held_encodes,
        "verdicts": verdicts,
        "alteration_classes": classes,
        "unknown_bit_flips_per_interpreter_and_bit": unknown_hit,
        "flag_words": fw,
        "alterations_per_interpreter": per_interp,
        "faults_injected": classes,
        "runs_per_hour": int((nb * bs) / max(wall, 1e-6) * 3600),
        "seeds": {"base": seed, "derivation": "run_seed(i)=sha256(VERIF_SEED,'C11','C',i)[:8]"},
        "simulated_time": "none - nothing in the system reads a clock",
        "determinism_selftest_runs": n_checked,
        "known_findings_hit": seen_known,
        "components": hubutil.REAL_STUB,
    }
    assumptions = ["four of five batches run the interpreter normally, every fifth with -O (assert statements compiled away)",
                   "the store builds altered objects with code.replace (3.8+) / the CodeType constructor (3.7); what CPython refuses to construct cannot reach the library",
                   "header = co_argcount, co_posonlyargcount, co_kwonlyargcount, co_nlocals, co_stacksize, co_flags, names, varnames, freevars, cellvars, filename, name, firstlineno"]
    hubutil.write_evidence(prop, tier, seed, "fault_enumeration", coverage, assumptions, wall, reported)
    print("[%s] alterations=%d refused=%d verdicts=%s flagwords known=%d unknown=%d wall=%.1fs exit=%d" % (
        prop, tested, rejected, json.dumps(verdicts, sort_keys=True), fw["known_words"], fw["unknown_words"], wall, exit_code))
    return exit_code
