"""Hub-side utilities (run under /venv/bin/python 3.12): interpreter discovery, scratch copy
of /repo's working tree, worker spawning, seeds, known findings, evidence writing."""
import atexit
import json
import os
import shutil
import subprocess
import sys
import tempfile
import time

from . import prng

VERIF = os.path.dirname(os.path.dirname(os.path.abspath(__file__)))
REPO = os.environ.get("VERIF_REPO", "/repo")
PYENV = "/root/.pyenv/versions"
INTERPRETERS = {
    "3.7": PYENV + "/3.7.16/bin/python",
    "3.8": PYENV + "/3.8.18/bin/python",
    "3.9": PYENV + "/3.9.18/bin/python",
    "3.10": PYENV + "/3.10.13/bin/python",
    "3.11": PYENV + "/3.11.7/bin/python",
    "3.12": "/venv/bin/python",
    "3.13": PYENV + "/3.13.0/bin/python",
}
OLD = ["3.7", "3.8", "3.9", "3.10"]
ALL = ["3.7", "3.8", "3.9", "3.10", "3.11", "3.12", "3.13"]
VALIDATOR_PY = "/usr/local/bin/python3-vt"
DEFAULT_SEED = 20261003


class HarnessError(Exception):
    pass


def base_seed():
    try:
        return int(os.environ.get("VERIF_SEED", DEFAULT_SEED))
    except ValueError:
        return prng.derive(os.environ.get("VERIF_SEED"))


def check_interpreters(names):
    missing = [n for n in names if not os.path.exists(INTERPRETERS[n])]
    if missing:
        raise HarnessError("missing interpreters: %s" % ", ".join(missing))


_SCRATCH = None


def scratch_tree():
    """Per-invocation scratch copy of /repo's *working tree* (code_data only); removed on exit."""
    global _SCRATCH
    if _SCRATCH is None:
        d = tempfile.mkdtemp(prefix="verif-scratch-")
        src = os.path.join(REPO, "code_data")
        if not os.path.isdir(src):
            raise HarnessError("no code_data package under %s" % REPO)
        shutil.copytree(src, os.path.join(d, "tree", "code_data"), ignore=shutil.ignore_patterns("__pycache__", "*.pyc"))
        _SCRATCH = d
        atexit.register(cleanup_scratch)
    return os.path.join(_SCRATCH, "tree")


def scratch_dir():
    scratch_tree()
    return _SCRATCH


def cleanup_scratch():
    global _SCRATCH
    if _SCRATCH and os.path.isdir(_SCRATCH):
        shutil.rmtree(_SCRATCH, ignore_errors=True)
    _SCRATCH = None


def worker_env(hashseed, tree):
    env = {
        "PATH": "/usr/bin:/bin",
        "HOME": os.environ.get("HOME", "/root"),
        "PYTHONHASHSEED": str(hashseed),
        "PYTHONIOENCODING": "utf-8",
        "PYTHONUTF8": "1",
        "LC_ALL": "C.UTF-8",
        "LANG": "C.UTF-8",
        "VERIF_TREE": tree,
        "PYTHONNOUSERSITE": "1",
    }
    return env


_NOASLR = None


def no_aslr_prefix():
    """`setarch <machine> -R`: address-space randomisation off, so id-based hashes (None,
    Ellipsis -> frozenset listing order) repeat from process to process.  Probed once; when the
    sandbox refuses it the workers run without (run digests are canonical either way)."""
    global _NOASLR
    if _NOASLR is None:
        _NOASLR = []
        if os.environ.get("VERIF_NO_SETARCH"):
            return _NOASLR  # self-test of the fallback: run with address-space randomisation on
        try:
            import platform

            pre = ["/usr/bin/setarch", platform.machine(), "-R"]
            outs = set()
            for _ in range(2):
                p = subprocess.run(pre + [INTERPRETERS["3.8"], "-c", "print(hash(None))"], stdout=subprocess.PIPE, stderr=subprocess.PIPE, timeout=30)
                if p.returncode != 0:
                    raise OSError("setarch failed")
                outs.add(p.stdout)
            if len(outs) == 1:
                _NOASLR = pre
        except Exception:
            _NOASLR = []
    return _NOASLR


def run_worker(interp, hashseed, job, timeout=900):
    """One fresh worker process; returns parsed result dict (raises HarnessError on failure)."""
    tree = job["tree"]
    job = dict(job)
    job.setdefault("timeout_s", max(30, timeout - 10))
    cmd = no_aslr_prefix() + [INTERPRETERS[interp]] + list(job.get("py_flags", []))
    cmd.append(os.path.join(VERIF, "sim", "worker.py"))
    t0 = time.time()
    try:
        p = subprocess.run(cmd, input=json.dumps(job).encode("utf-8"), stdout=subprocess.PIPE, stderr=subprocess.PIPE,
                           env=worker_env(hashseed, tree), timeout=timeout, cwd=scratch_dir())
    except subprocess.TimeoutExpired:
        raise HarnessError("worker timeout after %ss (interp %s)" % (timeout, interp))
    res = None
    for line in p.stdout.decode("utf-8", "replace").splitlines():
        if line.startswith("@@RESULT@@ "):
            res = json.loads(line[len("@@RESULT@@ "):])
    if res is None:
        raise HarnessError("worker produced no result (interp %s, rc %s): %s" % (interp, p.returncode, p.stderr.decode("utf-8", "replace")[-2000:]))
    if "harness_error" in res:
        raise HarnessError("worker harness error (interp %s): %s" % (interp, res["harness_error"]))
    res["_wall"] = time.time() - t0
    return res


def load_known():
    path = os.path.join(VERIF, "known_findings.json")
    if not os.path.exists(path):
        return []
    with open(path) as f:
        return json.load(f).get("findings", [])


def known_fingerprints(prop):
    """fingerprints that are listed as status=known (fixed entries suppress nothing)."""
    return {e["fingerprint"]: e for e in load_known() if e.get("property") == prop and e.get("status") == "known"}


def write_evidence(prop, tier, seed, level, coverage, assumptions, wall, violations):
    d = os.path.join(VERIF, "evidence")
    os.makedirs(d, exist_ok=True)
    ev = {"property_id": prop, "tier": tier, "seed": int(seed), "level": level, "coverage": coverage,
          "assumptions": assumptions, "wall_s": round(wall, 2), "violations": int(violations)}
    tmp = os.path.join(d, prop + ".json.tmp")
    with open(tmp, "w") as f:
        json.dump(ev, f, indent=1, sort_keys=True)
    os.replace(tmp, os.path.join(d, prop + ".json"))
    return ev


def merge_counts(dst, src):
    for k, v in src.items():
        if isinstance(v, (int, float)):
            dst[k] = dst.get(k, 0) + v
    return dst


REAL_STUB = {
    "code_data library": "REAL (imported from a per-invocation scratch copy of /repo's working tree)",
    "CPython 3.7.16 / 3.8.18 / 3.9.18 / 3.10.13": "REAL (the only hosts where from_code/to_code work)",
    "CPython 3.11.7 / 3.12.1 / 3.13.0": "REAL (JSON-only consumer nodes)",
    "typing_extensions": "STUB on 3.7-3.10, 3.12-pyenv, 3.13 (/verif/shims: re-exports typing.Literal; used only in one type alias)",
    "json": "REAL", "orjson / fastjsonschema": "REAL in the hub (3.12 /venv)", "jsonschema": "REAL in the validator node (python3-vt)",
    "rich": "absent on 3.7-3.10 -> CLI runs its own plain-print fallback",
    "threads": "REAL threading.Thread, parked; only the simulator decides who runs",
    "network / disk between nodes": "STUB: the hub's in-memory transport",
    "clock": "none: nothing in the system reads one (no simulated time to report; logical steps only)",
}


def dump_digests(prop, pairs):
    """VERIF_DUMP_DIGESTS=<dir>: write run index -> digest, for the determinism sweep tool."""
    d = os.environ.get("VERIF_DUMP_DIGESTS")
    if not d:
        return
    os.makedirs(d, exist_ok=True)
    with open(os.path.join(d, prop + ".digests"), "w") as f:
        for i, dg in sorted(pairs):
            f.write("%s %s\n" % (i, dg))
