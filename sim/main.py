"""`/verif/check <ID> --tier quick|thorough` and `/verif/check --replay <file>`.

Exit codes: 0 = property held on everything explored (possibly with KNOWN-FINDING lines);
1 = at least one unlisted violation (each printed as `VIOLATION property=<id> replay=<path>`
after the minimised replay file reproduced it in a fresh process); 2 = harness error.
"""
import argparse
import json
import os
import sys
import time
import traceback

HERE = os.path.dirname(os.path.abspath(__file__))
sys.path.insert(0, os.path.dirname(HERE))
sys.path[:] = [p for p in sys.path if os.path.abspath(p or ".") != HERE]

from sim import hubutil  # noqa: E402
from sim.hubutil import HarnessError  # noqa: E402

ENGINE_OF = {"C12": "A", "C06": "A", "C08": "A", "C11": "C", "C15": "B", "C07": "B", "C16": "B"}


def main(argv=None):
    ap = argparse.ArgumentParser()
    ap.add_argument("prop", nargs="?")
    ap.add_argument("--tier", default=os.environ.get("VERIF_TIER", "quick"), choices=["quick", "thorough"])
    ap.add_argument("--replay")
    ap.add_argument("--selftest", action="store_true", help="determinism self-test only")
    ap.add_argument("--setup", action="store_true")
    args = ap.parse_args(argv)
    t0 = time.time()
    try:
        if args.setup:
            hubutil.check_interpreters(hubutil.ALL)
            if not os.path.exists(hubutil.VALIDATOR_PY):
                raise HarnessError("validator interpreter missing")
            print("setup ok: interpreters present; nothing to build")
            return 0
        if args.replay:
            from sim import replay

            return replay.replay_file(args.replay)
        if not args.prop or args.prop not in ENGINE_OF:
            print("usage: check <%s> [--tier quick|thorough] | --replay <file>" % "|".join(sorted(ENGINE_OF)))
            return 2
        eng = ENGINE_OF[args.prop]
        if eng == "A":
            from sim import hub_a

            return hub_a.run(args.prop, args.tier, selftest_only=args.selftest)
        if eng == "C":
            from sim import hub_c

            return hub_c.run(args.prop, args.tier)
        from sim import hub_b

        return hub_b.run(args.prop, args.tier)
    except HarnessError as e:
        print("HARNESS-ERROR: %s" % e)
        return 2
    except Exception:
        print("HARNESS-ERROR: unexpected exception\n" + traceback.format_exc())
        return 2
    finally:
        hubutil.cleanup_scratch()
        sys.stdout.flush()


if __name__ == "__main__":
    sys.exit(main())
