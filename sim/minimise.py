"""Minimisation of a violating op list before reporting (engine A; hub side).

Candidates are replayed literally in fresh worker processes of the recorded interpreter and
hash seed; a candidate is accepted only if it yields the SAME fingerprint.  Order: drop ops
(with their dependants, which the executor skips automatically), drop scheduling decisions
and edits, shrink the program source by line chunks, drop surplus callers.
"""
import copy
import os
import time
from concurrent.futures import ThreadPoolExecutor

from . import hubutil

PAR = 16


class Minimiser(object):
    def __init__(self, prop, interp, hashseed, tier, target_fp, known, budget_s=45.0):
        self.prop = prop
        self.interp = interp
        self.hashseed = hashseed
        self.tier = tier
        self.target = target_fp
        self.known = list(known)
        self.deadline = time.time() + budget_s
        self.tests = 0
        self.tree = hubutil.scratch_tree()

    def out_of_time(self):
        return time.time() > self.deadline

    def test_many(self, cands):
        """-> list of bool, one per candidate (each in its own fresh process)."""
        if not cands:
            return []

        def one(ops):
            job = {"engine": "A", "prop": self.prop, "tree": self.tree, "tier": self.tier, "mode": "replay_many",
                   "candidates": [ops], "known": self.known}
            try:
                res = hubutil.run_worker(self.interp, self.hashseed, job, timeout=260)
            except hubutil.HarnessError:
                return False
            return self.target in res["results"][0]["violations"]

        self.tests += len(cands)
        with ThreadPoolExecutor(max_workers=PAR) as ex:
            return list(ex.map(one, cands))

    def shrink_list(self, items, rebuild):
        """ddmin over `items`; rebuild(items) -> full op list candidate."""
        n = 2
        while len(items) >= 2 and not self.out_of_time():
            chunk = max(1, (len(items) + n - 1) // n)
            starts = list(range(0, len(items), chunk))
            cands = [items[:i] + items[i + chunk:] for i in starts]
            ok = self.test_many([rebuild(c) for c in cands])
            hit = None
            for c, good in zip(cands, ok):
                if good:
                    hit = c
                    break
            if hit is not None:
                items = hit
                n = max(n - 1, 2)
            else:
                if chunk == 1:
                    break
                n = min(n * 2, len(items))
        return items

    def embed_sources(self, ops):
        """Make every program literal so that it can be shrunk (and the file is self-contained)."""
        out = []
        for op in ops:
            if op.get("op") == "compile" and "src" not in op["prog"]:
                op = copy.deepcopy(op)
                p = op["prog"]
                try:
                    if "relpath" in p:
                        with open(os.path.join(self.tree, p["relpath"]), "rb") as f:
                            src = f.read().decode("utf-8", "replace")
                        op["prog"] = {"kind": p["kind"], "name": p["name"], "src": src}
                except OSError:
                    pass
            out.append(op)
        return out

    def run(self, ops):
        ops = [op for op in ops if not op.get("skipped")]
        ok = self.test_many([ops])
        if not ok[0]:
            return None  # does not even reproduce in a fresh process
        # 1. drop operations
        ops = self.shrink_list(ops, lambda c: c)
        # 2. drop scheduling decisions / edits / surplus callers inside fault ops
        for idx in range(len(ops)):
            if self.out_of_time():
                break
            op = ops[idx]
            if op.get("op") == "preempt":
                if len(op.get("calls", [])) > 2:
                    for drop in range(len(op["calls"]) - 1, -1, -1):
                        c = copy.deepcopy(op)
                        del c["calls"][drop]
                        c["switches"] = [s for s in c["switches"] if s[1] != drop]
                        c["switches"] = [[s[0], s[1] - 1 if s[1] > drop else s[1]] for s in c["switches"]]
                        c["first"] = 0
                        cand = ops[:idx] + [c] + ops[idx + 1:]
                        if self.test_many([cand])[0]:
                            ops = cand
                            op = c
                            break
                if op.get("switches"):
                    sw = self.shrink_list(list(op["switches"]), lambda s, idx=idx, op=op: ops[:idx] + [dict(op, switches=s)] + ops[idx + 1:])
                    ops = ops[:idx] + [dict(op, switches=sw)] + ops[idx + 1:]
            elif op.get("op") == "scribble" and len(op.get("edits", [])) > 1:
                ed = self.shrink_list(list(op["edits"]), lambda e, idx=idx, op=op: ops[:idx] + [dict(op, edits=e)] + ops[idx + 1:])
                ops = ops[:idx] + [dict(op, edits=ed)] + ops[idx + 1:]
            elif op.get("op") == "graft":
                for key in ("append", "swap"):
                    if len(op.get(key, [])) > 0:
                        c = dict(op)
                        c[key] = []
                        cand = ops[:idx] + [c] + ops[idx + 1:]
                        if self.test_many([cand])[0]:
                            ops = cand
                            op = c
        # 3. shrink program sources (line chunks; a candidate that no longer compiles simply fails)
        ops = self.embed_sources(ops)
        for idx in range(len(ops)):
            if self.out_of_time():
                break
            op = ops[idx]
            if op.get("op") == "compile" and "src" in op["prog"]:
                lines = op["prog"]["src"].split("\n")
                if len(lines) < 2:
                    continue

                def rebuild(ls, idx=idx, op=op):
                    o = copy.deepcopy(op)
                    o["prog"]["src"] = "\n".join(ls)
                    return ops[:idx] + [o] + ops[idx + 1:]

                lines = self.shrink_list(lines, rebuild)
                ops = rebuild(lines)
        return ops
