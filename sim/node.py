"""Engine B API node: a synchronous, single-threaded server speaking line-delimited JSON-RPC on
pipes.  One OS process per (interpreter version, hash seed); the hub owns every choice.
Producers exist for 3.7-3.10; consumers for 3.7-3.13.  stdlib only; runs on 3.7+.
"""
import contextlib
import dis
import io
import json
import os
import re
import sys
import traceback
import warnings

from . import fp, workload

OLD = sys.version_info < (3, 11)


def _dumps(v):
    return json.dumps(v, ensure_ascii=True, allow_nan=True)


class Node(object):
    def __init__(self, tree):
        import code_data

        self.cd = code_data
        self.CD = code_data.CodeData
        self.tree = tree
        self.held = {}
        self.n = 0

    # ---- producer -------------------------------------------------------------------
    def build_code(self, item):
        src = workload.program_source(item["prog"], self.tree)
        code = workload.try_compile(src, item.get("filename", "<sim>"), "exec", item.get("optimize", 0))
        if code is None:
            return None
        cos = workload.all_code_objects(code)
        c = cos[item.get("pick", 0) % len(cos)]
        g = item.get("graft")
        if g:
            from .world import replace_code

            env = {"__builtins__": {}, "frozenset": frozenset}
            consts = list(c.co_consts)
            extra = []
            for e in g.get("append", []):
                try:
                    extra.append(eval(compile(e, "<zoo>", "eval"), env))
                except Exception:
                    pass
            if (c.co_flags & 3) == 3 and not consts and extra and isinstance(extra[0], str):
                extra = [None] + extra
            kw = {"co_consts": tuple(consts + extra)}
            ren = g.get("rename")
            if ren:
                # hand-altered names: a lone surrogate wherever a name can occur
                if c.co_names and ren.get("names") is not None:
                    ns = list(c.co_names)
                    ns[ren["names"] % len(ns)] = ns[ren["names"] % len(ns)] + "\udc80"
                    kw["co_names"] = tuple(ns)
                if ren.get("co_name"):
                    kw["co_name"] = c.co_name + "\udcff"
                np_ = c.co_argcount + c.co_kwonlyargcount + bool(c.co_flags & 4) + bool(c.co_flags & 8)
                for fld, suffix in (("co_freevars", "\udc82"), ("co_cellvars", "\udc83")):
                    if ren.get(fld) is not None and len(getattr(c, fld)) > 0:
                        xs = list(getattr(c, fld))
                        i = ren[fld] % len(xs)
                        xs[i] = xs[i] + suffix
                        kw[fld] = tuple(xs)
                if ren.get("varnames") is not None and len(c.co_varnames) > 0:
                    vs = list(c.co_varnames)
                    i = ren["varnames"] % len(vs)
                    vs[i] = vs[i] + "\udc81"
                    kw["co_varnames"] = tuple(vs)
            if g.get("firstlineno") is not None:
                kw["co_firstlineno"] = g["firstlineno"]
            lt = g.get("line_tail")
            if lt is not None:
                # a hand-made trailing line-table entry past the last instruction (decodes as _additional_line):
                # on 3.10 a "no line" range (lt == "noline") or a numbered one, before 3.10 an lnotab row at len(co_code)
                if hasattr(c, "co_linetable"):
                    kw["co_linetable"] = c.co_linetable + bytes([2, 0x80 if lt in ("noline", "multi") else int(lt) & 0x7F])
                elif lt == "multi":
                    # several rows for ONE bytecode offset, one of them a split line jump (the decoder merges them:
                    # stored offsets beyond a signed byte), at the start of the table
                    kw["co_lnotab"] = bytes([0, 1, 0, 127, 0, 50]) + c.co_lnotab
                else:
                    addr = sum(c.co_lnotab[0::2])
                    rest = len(c.co_code) - addr
                    if 0 < rest <= 255:
                        kw["co_lnotab"] = c.co_lnotab + bytes([rest, 1 if lt == "noline" else int(lt) & 0x7F])
            try:
                c = replace_code(c, **kw)
            except Exception:
                pass
            if g.get("extarg"):
                # k redundant EXTENDED_ARG 0 prefixes in front of one jump (CPython runs such code; up to 6 code units)
                from . import bytecode, prng as _prng

                r2 = _prng.PRNG(g["extarg"])
                cur = c
                for _ in range(r2.randint(1, 5)):
                    try:
                        new = bytecode.insert_extended_arg(cur, bytecode.parse(cur.co_code), r2, only_jumps=True, max_units=6, prefer_noline=True)
                    except Exception:
                        new = None
                    if new is None or not bytecode.same_program(cur, new):
                        break
                    cur = new
                c = cur
        return c

    def rpc_produce(self, p):
        c = self.build_code(p["item"])
        if c is None:
            return {"ok": False, "why": "does-not-compile"}
        try:
            x = self.CD.from_code(c)
        except Exception as e:
            return {"ok": False, "why": "from_code-raises:" + type(e).__name__}
        n = x.normalize()
        out = {"ok": True}
        for tag, v in (("", x), ("n", n)):
            self.n += 1
            h = str(self.n)
            self.held[h] = v
            for _ in range(p["item"].get("inmem_first", 0)):
                # history on the same value: in-memory round trip first (its own outcome is not judged here)
                try:
                    self.CD.from_json_data(v.to_json_data())
                except Exception:
                    pass
            try:
                doc = v.to_json_data()
            except Exception as e:
                return {"ok": False, "why": "to_json_data-raises:" + type(e).__name__ + ":" + str(e)[:100]}
            try:
                code_digest = fp.digest(fp.code_fp(v.to_code()))
            except Exception as e:
                code_digest = "raise:" + type(e).__name__
            try:
                out["D" + tag] = doc_to_wire(doc)
            except (TypeError, ValueError) as e:
                # json.dumps refuses it: something in the document is not a dict/list/str/int/float/bool/None
                return {"ok": False, "why": "document-not-plain-json:" + type(e).__name__ + ":" + str(e)[:100]}
            out["handle" + tag] = h
            out["fp_data" + tag] = fp.digest(fp.data_fp(v))
            out["fp_code" + tag] = code_digest
        out["n_code_objects"] = len(workload.all_code_objects(c))
        return out

    def rpc_reload_check(self, p):
        """J3a: the producer still holds x; does the (transcoded) text load back to a value equal to it?"""
        x = self.held[p["handle"]]
        try:
            y = self.CD.from_json_data(json.loads(p["text"]))
        except Exception as e:
            return {"ok": False, "why": "raises:" + type(e).__name__ + ":" + str(e)[:120]}
        try:
            eq = (y == x) and (x == y)
            heq = hash(y) == hash(x)
        except Exception as e:
            return {"ok": False, "why": "eq-or-hash-raises:" + type(e).__name__}
        where = None
        if not eq:
            where = fp.diff_path(fp.data_fp(x), fp.data_fp(y))
        return {"ok": True, "eq": bool(eq), "hash_eq": bool(heq), "where": where}

    def rpc_reload_fp(self, p):
        """J3b: a FRESH node of the producing version: strict fingerprints of the loaded data and its code."""
        try:
            y = self.CD.from_json_data(json.loads(p["text"]))
        except Exception as e:
            return {"ok": False, "why": "raises:" + type(e).__name__ + ":" + str(e)[:120]}
        out = {"ok": True, "fp_data": fp.digest(fp.data_fp(y))}
        try:
            out["fp_code"] = fp.digest(fp.code_fp(y.to_code()))
        except Exception as e:
            out["fp_code"] = "raise:" + type(e).__name__
        try:
            hash(y)
            out["hashable"] = True
        except Exception:
            out["hashable"] = False
        return out

    # ---- consumer -------------------------------------------------------------------
    def rpc_consume(self, p):
        try:
            doc = json.loads(p["text"])
        except Exception as e:
            return {"ok": False, "stage": "loads", "why": type(e).__name__}
        try:
            x = self.CD.from_json_data(doc)
        except Exception as e:
            return {"ok": False, "stage": "from_json_data", "why": type(e).__name__ + ":" + str(e)[:120]}
        try:
            R = x.to_json_data()
        except Exception as e:
            return {"ok": False, "stage": "to_json_data", "why": type(e).__name__ + ":" + str(e)[:120]}
        try:
            n = x.normalize()
            Rn = n.to_json_data()
        except Exception as e:
            return {"ok": False, "stage": "normalize", "why": type(e).__name__ + ":" + str(e)[:120]}
        out = {"ok": True, "R": doc_to_wire(R), "Rn": doc_to_wire(Rn)}
        # J4 (C07 on the consumer side): n was obtained by normalizing; its document, after a real
        # serialize/parse cycle, must load back to data equal to n
        try:
            y = self.CD.from_json_data(json.loads(out["Rn"]))
            fa, fb = fp.data_fp(n), fp.data_fp(y)
            out["rt_ok"] = bool(y == n and n == y) and fa == fb
            out["rt_where"] = None if out["rt_ok"] else (fp.diff_path(fa, fb) or "eq")
        except Exception as e:
            out["rt_ok"] = False
            out["rt_where"] = "raises:" + type(e).__name__
        return out

    def rpc_schema(self, p):
        return {"ok": True, "schema": self.cd.JSON_SCHEMA}

    def rpc_ping(self, p):
        return {"ok": True, "version": "%d.%d" % sys.version_info[:2], "hashseed": os.environ.get("PYTHONHASHSEED")}

    # ---- CLI (warm variant and oracle) -------------------------------------------------
    def rpc_cli_warm(self, p):
        """N invocations of main() in THIS process with patched argv/stdout."""
        from code_data import _cli

        outs = []
        extra = list(p.get("extra_path") or [])
        for e in extra:
            sys.path.insert(0, e)
        if extra:
            import importlib

            importlib.invalidate_caches()
        for argv in p["argvs"]:
            buf = io.StringIO()
            err = io.StringIO()
            status = 0
            old_argv = sys.argv
            sys.argv = ["python-code-data"] + list(argv)
            cwd = os.getcwd()
            try:
                if p.get("cwd"):
                    os.chdir(p["cwd"])
                with contextlib.redirect_stdout(buf), contextlib.redirect_stderr(err), warnings.catch_warnings():
                    warnings.simplefilter("ignore")
                    try:
                        _cli.main()
                    except SystemExit as e:
                        status = e.code if isinstance(e.code, int) else 1
                    except BaseException as e:  # noqa: B902
                        status = "raise:" + type(e).__name__
            finally:
                sys.argv = old_argv
                os.chdir(cwd)
            outs.append({"status": status, "stdout": buf.getvalue()})
        for e in extra:
            if e in sys.path:
                sys.path.remove(e)
        return {"ok": True, "outs": outs}

    def rpc_cli_expect(self, p):
        """The oracle: what the API gives for the same program, rendered with the same stdlib calls."""
        import importlib.util

        flags = p["flags"]
        kind = p["source_kind"]
        extra = list(p.get("extra_path") or [])
        for e in extra:
            sys.path.insert(0, e)
        if extra:
            import importlib

            importlib.invalidate_caches()
        try:
            return self._cli_expect(p, flags, kind)
        finally:
            for e in extra:
                if e in sys.path:
                    sys.path.remove(e)

    def _cli_expect(self, p, flags, kind):
        import importlib.util

        try:
            if kind == "m":
                spec = importlib.util.find_spec(p["module"])
                code = spec.loader.get_code(p["module"])
                source = spec.loader.get_source(p["module"])
            else:
                if "source_b64" in p:
                    import base64

                    source = base64.b64decode(p["source_b64"])
                else:
                    source = p["source"]
                with warnings.catch_warnings():
                    warnings.simplefilter("ignore")
                    code = compile(source, p["filename"], "exec")
        except Exception as e:
            return {"ok": False, "why": "oracle-cannot-compile:" + type(e).__name__}
        try:
            raw = self.CD.from_code(code)
            data = raw if flags.get("no_normalize") else raw.normalize()
        except Exception as e:
            return {"ok": False, "why": "api-raises:" + type(e).__name__ + ":" + str(e)[:100]}
        sections = []
        if flags.get("source") and source is not None:
            sections.append(["source", (source if isinstance(source, str) else str(source)) + "\n"])
        if flags.get("dis"):
            sections.append(["dis", render_dis(code)])
        sections.append(["repr", repr(data) + "\n"])
        if flags.get("json"):
            sections.append(["json", json.dumps(data.to_json_data(), indent=2, ensure_ascii=False) + "\n"])
        same_instr = None
        if flags.get("dis_after"):
            try:
                after = data.to_code()
                sections.append(["dis_after", render_dis(after)])
                same_instr = symbolic_equal(code, after)
            except Exception as e:
                sections.append(["dis_after", "<to_code raises %s>" % type(e).__name__])
        self.held["cli"] = data
        has_fs = any(isinstance(k, frozenset) and len(k) > 1 or (isinstance(k, tuple) and "frozenset(" in repr(k))
                     for c in workload.all_code_objects(code) for k in c.co_consts)
        return {"ok": True, "sections": sections, "same_instructions": same_instr, "has_frozenset": has_fs}

    def rpc_cli_semantic(self, p):
        """L2/L3 on what a CLI process printed: does the repr line / JSON section denote the expected data?"""
        data = self.held["cli"]
        out = {"ok": True}
        ns = {k: getattr(self.cd, k) for k in ("CodeData", "Instruction", "Jump", "Name", "Varname", "Constant", "Freevar", "Cellvar", "NoArg", "Args", "Function", "AdditionalLine")}
        ns.update({"nan": float("nan"), "inf": float("inf"), "Ellipsis": Ellipsis, "frozenset": frozenset})
        # repr() of some constants does not eval back to the same value (complex with a negative-zero
        # real part prints as (-0-1j); complex infinities print as infj): then the eval-based
        # comparison says nothing and the hub counts the case as inconclusive
        try:
            out["repr_evalable"] = bool(eval(repr(data), ns) == data)
        except Exception:
            out["repr_evalable"] = False
        if p.get("repr_line") is not None:
            try:
                v = eval(p["repr_line"], ns)
                out["repr_equal"] = bool(v == data)
            except Exception as e:
                out["repr_equal"] = False
                out["repr_why"] = type(e).__name__ + ":" + str(e)[:100]
        if p.get("json_text") is not None:
            try:
                v = self.CD.from_json_data(json.loads(p["json_text"]))
                out["json_equal"] = bool(v == data)
            except Exception as e:
                out["json_equal"] = False
                out["json_why"] = type(e).__name__ + ":" + str(e)[:100]
        return out


def render_dis(code):
    """What _cli.show_code_recursive + dis.dis print (re-implemented with the same stdlib calls)."""
    buf = io.StringIO()

    def rec(c):
        dis.show_code(c, file=buf)
        buf.write("\n")
        for k in c.co_consts:
            if hasattr(k, "co_code"):
                rec(k)

    rec(code)
    dis.dis(code, file=buf)
    return buf.getvalue()


def symbolic_equal(a, b):
    from . import bytecode

    return bytecode.same_program(a, b)


def doc_to_wire(doc):
    """The document as JSON text (the only thing that ever leaves a node)."""
    return json.dumps(doc, ensure_ascii=True, allow_nan=True)


def serve(job, tree):
    node = Node(tree)
    out = sys.stdout
    sys.stdout = sys.stderr  # nothing but RPC responses on the real stdout
    out.write("@@READY@@\n")
    out.flush()
    # length-prefixed frames read from the BINARY stream: one allocation of exactly the frame's size, whatever
    # chunks the pipe delivers it in (text-mode line iteration allocates per chunk, i.e. per timing, and heap
    # addresses - which identity-keyed state in the code under test may depend on - would no longer replay)
    inp = sys.stdin.buffer
    while True:
        head = inp.readline()
        if not head:
            break
        head = head.strip()
        if not head:
            continue
        raw = inp.read(int(head))
        req = json.loads(raw.decode("utf-8"))
        del raw
        if req["m"] == "quit":
            break
        try:
            res = getattr(node, "rpc_" + req["m"])(req.get("p", {}))
        except Exception:
            res = {"ok": False, "node_error": traceback.format_exc()[-1500:]}
        out.write(json.dumps(res) + "\n")
        out.flush()
