"""The harness's own PRNG (splitmix64) and seed derivation.

Runs unchanged on CPython 3.7 .. 3.13.  `random.Random`'s derived methods (choice, shuffle,
sample) are not guaranteed to give the same sequence on every version, so nothing in the
simulator uses them: every choice, delay, fault and schedule decision is drawn from here.
"""
import hashlib

MASK = (1 << 64) - 1


def derive(*parts):
    """Derive a 64-bit seed from arbitrary (str/int) parts; stable across versions."""
    h = hashlib.sha256()
    for p in parts:
        h.update(str(p).encode("utf-8"))
        h.update(b"\x00")
    return int.from_bytes(h.digest()[:8], "big")


class PRNG(object):
    __slots__ = ("state", "draws")

    def __init__(self, seed):
        self.state = seed & MASK
        self.draws = 0

    def next64(self):
        self.draws += 1
        self.state = (self.state + 0x9E3779B97F4A7C15) & MASK
        z = self.state
        z = ((z ^ (z >> 30)) * 0xBF58476D1CE4E5B9) & MASK
        z = ((z ^ (z >> 27)) * 0x94D049BB133111EB) & MASK
        return z ^ (z >> 31)

    def below(self, n):
        """Uniform int in [0, n).  n >= 1."""
        if n <= 1:
            self.next64()
            return 0
        return self.next64() % n

    def randint(self, lo, hi):
        """Uniform int in [lo, hi] inclusive."""
        return lo + self.below(hi - lo + 1)

    def random(self):
        return (self.next64() >> 11) / float(1 << 53)

    def chance(self, p):
        return self.random() < p

    def choice(self, seq):
        return seq[self.below(len(seq))]

    def weighted(self, pairs):
        """pairs: list of (item, weight>=0).  Returns an item."""
        total = 0
        for _, w in pairs:
            total += w
        if total <= 0:
            return pairs[self.below(len(pairs))][0]
        x = self.random() * total
        acc = 0.0
        for item, w in pairs:
            acc += w
            if x < acc:
                return item
        return pairs[-1][0]

    def shuffle(self, lst):
        """In-place Fisher-Yates."""
        for i in range(len(lst) - 1, 0, -1):
            j = self.below(i + 1)
            lst[i], lst[j] = lst[j], lst[i]
        return lst

    def shuffled(self, seq):
        lst = list(seq)
        return self.shuffle(lst)

    def sample(self, seq, k):
        lst = list(seq)
        self.shuffle(lst)
        return lst[:k]

    def subset(self, seq, p=0.5):
        return [x for x in seq if self.chance(p)]

    def fork(self, *parts):
        return PRNG(derive(self.next64(), *parts))
