"""`check --replay <file>`: execute the recorded lists literally in a fresh worker process of
the recorded interpreter with the recorded hash seed.  Exit 1 + VIOLATION line if the recorded
fingerprint reproduces, 0 if it does not (e.g. on a repaired tree), 2 on harness error."""
import json

from . import hubutil


def replay_file(path):
    with open(path) as f:
        rec = json.load(f)
    prop = rec["property"]
    tree = hubutil.scratch_tree()
    eng = rec.get("engine", "A")
    if eng == "A":
        hubutil.check_interpreters([rec["interp"]])
        if rec.get("mode") == "reload_stage":
            res = hubutil.run_worker(rec["interp"], rec["hashseed"], {"engine": "A", "prop": prop, "tree": tree, "tier": rec.get("tier", "quick"), "mode": "reload_stage", "items": rec["items"]}, timeout=300)
            got = [x["fingerprint"] for x in res["violations"]]
            print("replay of %s (reload stage under another hash seed): recorded fingerprint %s" % (path, rec["fingerprint"]))
            print("violations observed: %s" % (got or "none"))
            if rec["fingerprint"] in got:
                print("VIOLATION property=%s replay=%s" % (prop, path))
                return 1
            print("recorded violation did NOT reproduce on the current tree")
            return 0
        if rec.get("mode") == "batch":
            job = dict(rec["job"], tree=tree)
            res = hubutil.run_worker(rec["interp"], rec["hashseed"], job, timeout=900)
            got = [x["fingerprint"] for vr in res["violating"] if vr["run"] == rec["run_index"] for x in vr["violations"]]
            print("replay of %s (whole batch, cross-run state): recorded fingerprint %s" % (path, rec["fingerprint"]))
            print("violations observed in run %d: %s" % (rec["run_index"], got or "none"))
            if rec["fingerprint"] in got:
                print("VIOLATION property=%s replay=%s" % (prop, path))
                return 1
            print("recorded violation did NOT reproduce on the current tree")
            return 0
        job = {"engine": "A", "prop": prop, "tree": tree, "tier": rec.get("tier", "quick"), "mode": "replay", "ops": rec["ops"],
               "known": [], "keep_ops": False}
        res = hubutil.run_worker(rec["interp"], rec["hashseed"], job, timeout=300)
        got = [v["fingerprint"] for v in res["results"][0]["violations"]]
    elif eng == "C":
        from . import hub_c

        got = hub_c.replay(rec, tree)
    else:
        from . import hub_b

        got = hub_b.replay(rec, tree)
    print("replay of %s: recorded fingerprint %s" % (path, rec["fingerprint"]))
    print("violations observed: %s" % (got or "none"))
    if rec["fingerprint"] in got:
        print("VIOLATION property=%s replay=%s" % (prop, path))
        return 1
    print("recorded violation did NOT reproduce on the current tree")
    return 0
