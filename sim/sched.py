"""Seeded pre-emption and abort injection for synchronous library calls.  Runs on 3.7+.

Real threads, but parked: exactly one caller holds the baton at any time.  Pre-emption
points are `line` trace events inside frames whose code lives in the scratch copy of
code_data/.  At each point the scheduler (seeded PRNG, or a recorded decision list under
replay) may hand the baton to another caller.  Which thread runs is never decided by the
OS: every other thread is blocked on its own Event.
"""
import os
import sys
import threading

from . import boot

WATCHDOG_S = 60.0


class HarnessStall(Exception):
    """A parked-forever run: harness error (exit 2), never a verdict."""


class SimAbort(BaseException):
    """Private abort type: not an Exception subclass, so no `except Exception` swallows it."""


ABORT_KINDS = ["SimAbort", "KeyboardInterrupt", "MemoryError", "OSError"]


def make_abort(kind):
    if kind == "KeyboardInterrupt":
        return KeyboardInterrupt("injected")
    if kind == "MemoryError":
        return MemoryError("injected")
    if kind == "OSError":
        return OSError(4, "injected EINTR")
    return SimAbort("injected")


def _outcome(thunk):
    try:
        return ("ok", thunk())
    except HarnessStall:
        raise
    except BaseException as e:  # noqa: B902 - we classify, never swallow silently
        return ("raise", type(e).__name__, str(e)[:160])


class CallDidNotReturn(BaseException):
    """Raised inside an API call by the wall-clock guard: the call ran for longer than any legitimate call on
    inputs of this size could (an endless loop in the library).  Reported as an outcome of the call, and only
    believed if the replay in a fresh process hangs the same way."""


def guarded(thunk, seconds=90):
    """_outcome with a wall-clock guard (main thread only; SIGALRM)."""
    import signal
    import threading

    if threading.current_thread() is not threading.main_thread() or not hasattr(signal, "SIGALRM"):
        return _outcome(thunk)

    def on_alarm(signum, frame):
        raise CallDidNotReturn("no return after %ss" % seconds)

    old = signal.signal(signal.SIGALRM, on_alarm)
    signal.alarm(seconds)
    try:
        return _outcome(thunk)
    finally:
        signal.alarm(0)
        signal.signal(signal.SIGALRM, old)


def count_lines(thunk, only_files=None, skip_module_frames=False):
    """Number of code_data line events one call takes (used to place an abort)."""
    n = [0]

    def loc(frame, event, arg):
        if event == "line":
            if skip_module_frames and frame.f_code.co_name == "<module>":
                return loc
            if only_files is not None and os.path.basename(frame.f_code.co_filename) not in only_files:
                return loc
            n[0] += 1
        return loc

    def glob(frame, event, arg):
        if event == "call" and boot.is_code_data_file(frame.f_code.co_filename):
            if only_files is not None and os.path.basename(frame.f_code.co_filename) not in only_files:
                return None  # frames of other files run untraced (their callees are still seen)
            return loc
        return None

    sys.settrace(glob)
    try:
        out = _outcome(thunk)
    finally:
        sys.settrace(None)
    return n[0], out


def run_with_abort(thunk, k, kind, only_files=None, skip_module_frames=False):
    """Run thunk; raise an injected exception at the k-th code_data line event.

    Returns (fired, where, outcome).  `where` = (function name, relative line) of the
    frame the abort landed in.  only_files: count/fire only in frames of these file base names;
    skip_module_frames: never fire inside a module body (an import in progress)."""
    n = [0]
    info = {"fired": False, "where": None}

    def loc(frame, event, arg):
        if event == "line":
            if skip_module_frames and frame.f_code.co_name == "<module>":
                return loc
            if only_files is not None and os.path.basename(frame.f_code.co_filename) not in only_files:
                return loc
            n[0] += 1
            if n[0] == k:
                info["fired"] = True
                info["where"] = (frame.f_code.co_name, frame.f_lineno - frame.f_code.co_firstlineno)
                raise make_abort(kind)
        return loc

    def glob(frame, event, arg):
        if event == "call" and boot.is_code_data_file(frame.f_code.co_filename):
            if only_files is not None and os.path.basename(frame.f_code.co_filename) not in only_files:
                return None
            return loc
        return None

    sys.settrace(glob)
    try:
        out = _outcome(thunk)
    finally:
        sys.settrace(None)
    return info["fired"], info["where"], out


def run_with_recursion_limit(thunk, headroom):
    """A *real* RecursionError: lower the limit to current depth + headroom for one call."""
    depth = 0
    f = sys._getframe()
    while f is not None:
        depth += 1
        f = f.f_back
    old = sys.getrecursionlimit()
    # CPython refuses limits whose low-water mark (3/4 of the limit) is below the current depth
    try:
        sys.setrecursionlimit(max(depth + headroom, (depth * 3) // 2 + 12))
    except RecursionError:
        return ("ok", None)
    try:
        out = _outcome(thunk)
    finally:
        sys.setrecursionlimit(old)
    return out


class Preempter(object):
    """Run several thunks as interleaved callers under a seeded (or recorded) schedule."""

    def __init__(self, thunks, rng=None, p=0.05, schedule=None, first=0, labels=None):
        self.thunks = thunks
        self.n = len(thunks)
        self.rng = rng
        self.p = p
        self.replay = schedule is not None
        self.schedule = list(schedule or [])
        self.sched_i = 0
        self.first = first % self.n
        self.events = [threading.Event() for _ in thunks]
        self.main_event = threading.Event()
        self.done = [False] * self.n
        self.started = [False] * self.n
        self.results = [None] * self.n
        self.step = 0
        self.switches = []  # recorded decisions [step, to]
        self.current = None
        self.error = None
        self.labels = labels or [None] * self.n
        self.func_now = [None] * self.n  # code_data function each caller is currently in
        self.overlap_same_fn = 0  # switches made while >= 2 callers were inside the same function
        self.overlap_same_label = 0

    # -- decisions ----------------------------------------------------------------
    def _unfinished_others(self, me):
        return [i for i in range(self.n) if i != me and not self.done[i]]

    def _decide(self, me):
        others = self._unfinished_others(me)
        if self.replay:
            if self.sched_i < len(self.schedule) and self.schedule[self.sched_i][0] == self.step:
                to = self.schedule[self.sched_i][1]
                self.sched_i += 1
                if to in others:
                    return to
            else:
                # skip decisions that are already in the past (after minimisation)
                while self.sched_i < len(self.schedule) and self.schedule[self.sched_i][0] < self.step:
                    self.sched_i += 1
            return None
        if not others:
            return None
        if self.rng.chance(self.p):
            return self.rng.choice(others)
        return None

    # -- tracing ------------------------------------------------------------------
    def _glob(self, frame, event, arg):
        if event == "call" and boot.is_code_data_file(frame.f_code.co_filename):
            return self._loc
        return None

    def _loc(self, frame, event, arg):
        if event == "line":
            self.step += 1
            me = self.current
            self.func_now[me] = frame.f_code.co_name
            to = self._decide(me)
            if to is not None:
                self.switches.append([self.step, to])
                if self.started[to] and self.func_now[to] == self.func_now[me]:
                    self.overlap_same_fn += 1
                    if self.labels[to] == self.labels[me]:
                        self.overlap_same_label += 1
                self._handoff(me, to)
        return self._loc

    def _handoff(self, me, to):
        self.events[to].set()
        if not self.events[me].wait(WATCHDOG_S):
            self.error = "stall: caller %d never got the baton back" % me
            raise HarnessStall(self.error)
        self.events[me].clear()
        self.current = me

    def _runner(self, i):
        if not self.events[i].wait(WATCHDOG_S):
            self.error = "stall: caller %d never started" % i
            self.main_event.set()
            return
        self.events[i].clear()
        self.current = i
        self.started[i] = True
        sys.settrace(self._glob)
        try:
            try:
                self.results[i] = _outcome(self.thunks[i])
            except HarnessStall as e:
                self.error = str(e)
                self.results[i] = ("stall",)
        finally:
            sys.settrace(None)
        self.done[i] = True
        self.func_now[i] = None
        rest = [j for j in range(self.n) if not self.done[j]]
        if rest and self.error is None:
            self.events[rest[0]].set()  # deterministic: lowest unfinished caller continues
        else:
            self.main_event.set()

    def run(self):
        threads = [threading.Thread(target=self._runner, args=(i,), name="caller-%d" % i) for i in range(self.n)]
        for t in threads:
            t.daemon = True
            t.start()
        self.events[self.first].set()
        ok = self.main_event.wait(WATCHDOG_S * 2)
        if not ok or self.error:
            raise HarnessStall(self.error or "stall: callers did not finish")
        for t in threads:
            t.join(WATCHDOG_S)
        return self.results
