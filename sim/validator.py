"""Validator node (python3-vt, 3.11): independent JSON-Schema validation with `jsonschema`.
Line protocol on stdin/stdout: first line {"schema": ...}; then {"text": "<json text>"} ->
{"valid": bool, "path": "...", "schema_path": "...", "msg": "..."}."""
import json
import sys

import jsonschema


def main():
    validator = None
    sys.stdout.write("@@READY@@\n")
    sys.stdout.flush()
    for line in sys.stdin:
        line = line.strip()
        if not line:
            continue
        req = json.loads(line)
        if "quit" in req:
            break
        if "schema" in req:
            cls = jsonschema.validators.validator_for(req["schema"], default=jsonschema.Draft7Validator)
            validator = cls(req["schema"])
            sys.stdout.write(json.dumps({"ok": True, "validator": cls.__name__}) + "\n")
            sys.stdout.flush()
            continue
        try:
            doc = json.loads(req["text"])
            err = jsonschema.exceptions.best_match(validator.iter_errors(doc))
            if err is None:
                res = {"valid": True}
            else:
                res = {"valid": False, "path": "/".join("*" if isinstance(p, int) else str(p) for p in err.absolute_path),
                       "schema_path": "/".join(str(p) for p in list(err.absolute_schema_path)[-4:]), "msg": err.message[:200]}
        except Exception as e:  # noqa: B902
            res = {"valid": False, "path": "", "schema_path": "validator-raises", "msg": type(e).__name__ + ":" + str(e)[:200]}
        sys.stdout.write(json.dumps(res) + "\n")
        sys.stdout.flush()


if __name__ == "__main__":
    main()
