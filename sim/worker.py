"""Worker process entry (one fresh process per run batch / replay).  Runs on 3.7+.

stdin: one JSON job.  stdout: a line `@@RESULT@@ <json>`.  Anything else on stdout/stderr is
diagnostics.  Exit status 0 = job done (violations are data, not errors), 3 = harness error.
"""
import faulthandler
import io
import json
import os
import sys
import time
import traceback

HERE = os.path.dirname(os.path.abspath(__file__))
sys.path.insert(0, os.path.dirname(HERE))
# never let the script directory shadow stdlib modules
sys.path[:] = [p for p in sys.path if os.path.abspath(p or ".") != HERE]


def main():
    if len(sys.argv) > 1 and sys.argv[1] == "node":
        # engine B API node: line-delimited JSON-RPC on stdin/stdout until "quit"
        faulthandler.enable()
        from sim import boot

        boot.setup(os.environ["VERIF_TREE"])
        boot.preimport(sys.version_info < (3, 11))
        from sim import node

        node.serve({}, boot.TREE)
        return 0
    job = json.loads(sys.stdin.read())
    faulthandler.enable()
    faulthandler.dump_traceback_later(job.get("timeout_s", 600), exit=True)
    from sim import boot

    boot.setup(job["tree"])
    engine = job["engine"]
    t0 = time.time()
    out = {"interp": "%d.%d" % sys.version_info[:2], "hashseed": os.environ.get("PYTHONHASHSEED"), "shim": boot.USING_SHIM}
    try:
        if engine == "A":
            boot.preimport(True)
            from sim import engine_a

            if job["mode"] == "batch":
                out.update(engine_a.run_batch(job, boot.TREE))
            elif job["mode"] == "reload_stage":
                from sim import c08

                out.update(c08.reload_stage(job["items"], boot.TREE))
            elif job["mode"] == "replay_many":
                res = []
                for ops in job["candidates"]:
                    w = engine_a.replay_ops(job["prop"], ops, boot.TREE, job["tier"], job.get("known", []))
                    res.append({"violations": [v["fingerprint"] for v in w.violations]})
                out["results"] = res
            else:
                w = engine_a.replay_ops(job["prop"], job["ops"], boot.TREE, job["tier"], job.get("known", []))
                out["results"] = [engine_a.summarize(w, None, None, -1, job.get("keep_ops", False))]
        elif engine == "C":
            boot.preimport(True)
            from sim import engine_c

            out.update(engine_c.run_job(job, boot.TREE))
        else:
            raise ValueError("unknown engine %r" % engine)
    except Exception:
        out["harness_error"] = traceback.format_exc()
        out["wall"] = time.time() - t0
        sys.stdout.write("@@RESULT@@ " + json.dumps(out) + "\n")
        sys.stdout.flush()
        return 3
    out["wall"] = time.time() - t0
    sys.stdout.write("@@RESULT@@ " + json.dumps(out) + "\n")
    sys.stdout.flush()
    return 0


if __name__ == "__main__":
    sys.exit(main())
