"""Seeded workload: programs (source text) and constants.  stdlib only, runs on 3.7+.

Four sources (DESIGN.md section 8):
  1. the repository's own examples (literal EXAMPLES of _test.py, copied as data, and the
     files under code_data/_test_minimized of the scratch tree);
  2. the running interpreter's standard library;
  3. a grammar generator aimed at what the claimed properties are sensitive to;
  4. the constant zoo, spliced into (3) and used for grafting constants into code objects.

Programs are only ever compiled, never executed.
"""
import os
import sys
import warnings

NL = "\n"

REPO_EXAMPLES = [
    ("blank", "\n"),
    ("variable", "a"),
    ("fn", "def fn(): pass"),
    ("class", "class A: pass"),
    ("duplicate class", "class A: pass\nclass A: pass\n"),
    ("long line jump", "x = 1" + NL * 127 + "\ny=2"),
    ("long jump", "x = x or " + "-x" * 100 + "\nwhile x:\n    x -= 1"),
    ("bpo-46724", "while not x < y < z:\n    pass"),
    ("long line and bytecode jump", "y =" + ("-x" * 100) + ("\n" * 300) + "z = y"),
    ("negative line jump", "f(\n1)"),
    ("long negative jump", "f(" + "\n" * 256 + "1)"),
    ("multiple returns", "def _():\n    return\n    return\n"),
    ("complex", "_ = 0j"),
    ("unused cellvar", "\ndef fn():\n    return\n    def i():\n        i()\n"),
]

# ---------------------------------------------------------------------------------------
# constant zoo
# ---------------------------------------------------------------------------------------

# (source text, hashable?) -- every entry folds to ONE constant on 3.7 .. 3.10
ZOO_SCALARS = [
    "None", "True", "False", "...",
    "0", "1", "-1", "-2", "2", "255", "256", "65535", "65536",
    "9007199254740991", "9007199254740992", "9007199254740993",
    "-9007199254740991", "-9007199254740992", "-9007199254740993",
    "9223372036854775807", "9223372036854775808", "-9223372036854775808", "-9223372036854775809",
    "18446744073709551616", "10**30", "-10**30", "12345678901234567890123456789",
    "0.0", "-0.0", "1.0", "-1.0", "1.5", "0.1", "5e-324", "-5e-324", "2.2250738585072014e-308",
    "1.7976931348623157e308", "1e999", "-1e999", "(1e999-1e999)", "9007199254740993.0", "1e22", "1e16",
    "0j", "-0j", "1j", "(1+2j)", "(0.0-0j)", "(-0.0+0j)", "1e999j", "(1e999-1e999)*1j", "(1.5-2.5j)",
    "complex_neg",  # placeholder replaced below: -(0.0+1j) style
    "'a'", "''", "'abc'", "'A'", "'a b'", "'\\x00'", "'\\n'", "'\"'", "'\\\\'",
    "'\\xe9'", "'\\u20ac'", "'\\u4e2d\\u6587'", "'\\U0001f600'", "'\\udc80'", "'\\ud800'", "'a\\udfffb'",
    "'\\ud83d\\ude00'", "'\\x7f'", "'\\x80'", "'\\ufeff'", "'\\u2028'", "'1'", "'True'", "'None'", "'nan'",
    "b'a'", "b''", "b'abc'", "b'\\x00'", "b'\\xff\\xfe'", "b'\\x80abc'", "b'1'",
    "'x'*300", "b'y'*300",
    # a lone surrogate next to characters that entered Unicode in 12.0 .. 16.0: whether repr() escapes them
    # depends on the Unicode database of the interpreter that prints (3.7: 11.0, 3.8: 12.1, 3.9/3.10: 13.0,
    # 3.11: 14.0, 3.12: 15.0, 3.13: 15.1/16.0)
    "'\\ud800\\U0001fa70'", "'\\udc80\\U0001fad0'", "'\\U0001fae0\\udfff'", "'\\ud800 \\U0001fae8 \\u0cf3'", "'\\udc00\\U0001fae9'",
    "'caf\\xe9 \\udc80.txt'", "'\\U0001fad0'", "'\\U0001fae9 \\u1c89'",
    # strings equal to the tag names of the JSON encoding (a codec that confuses membership with key lookup)
    "'int'", "'float'", "'string'", "'type'", "'real'", "'imag'", "'bytes'", "'frozenset'", "'ellipsis'", "'constant'", "'filename'", "'nan'", "'inf'",
    # a lone surrogate in a string that begins/ends with quote characters or backslashes
    "'\\udc80\\''", "'\\'\\udc80'", "'\"\\udc80\"'", "'\\'\\udc80\"'", "'\\udc80\\\\'", "'\\\\\\udc80'", "'\\'\\'\\udc80\\'\\''",
]
ZOO_SCALARS = [s if s != "complex_neg" else "-(0.0+1j)" for s in ZOO_SCALARS]

# families of CPython-distinct look-alikes (C08): within a family every two are DIFFERENT constants
CONFUSABLE_FAMILIES = [
    ["1", "True", "1.0", "(1+0j)", "'1'", "b'1'"],
    ["0", "False", "0.0", "-0.0", "0j", "-0j", "(0.0-0j)", "(-0.0+0j)"],
    ["'a'", "b'a'"],
    ["(1,)", "(True,)", "(1.0,)"],
    ["(0.0,)", "(-0.0,)", "(0,)", "(False,)"],
    ["(1, (0.0, 'a'))", "(1, (-0.0, 'a'))", "(True, (0.0, 'a'))", "(1, (0.0, b'a'))"],
    ["None", "'None'", "0"],
    ["2", "2.0", "(2+0j)"],
    ["''", "b''", "()"],
    ["1e999", "-1e999", "(1e999-1e999)"],
    # different constants whose hashes collide in CPython (hash(-1) == hash(-2); ints 2**61-1 apart)
    ["-1", "-2"],
    ["-1.0", "-2.0"],
    ["5", "2305843009213693956"],
    # a negative-zero part NEXT TO a non-zero / NaN part (CPython's constant key keeps the zero's sign)
    ["-1j", "(0-1j)"],
    ["-(-1+0j)", "(1+0j)"],
    ["-((1e999-1e999)+0j)", "((1e999-1e999)+0j)"],
]
# spelled differently but the SAME constant (all NaNs are identified; equal ints)
SAME_FAMILIES = [
    ["(1e999-1e999)", "-(1e999-1e999)", "(1e999*0)", "(1e999-1e999)"],
    ["255", "0xff", "0o377"],
    ["1.0", "1e0", "10e-1"],
    ["'ab'", "'a' 'b'"],
    ["((1e999-1e999), 1)", "(-(1e999-1e999), 1)"],
]


def zoo_scalar_src(rng):
    return rng.choice(ZOO_SCALARS)


def big_int_src(rng):
    digits = rng.choice([17, 20, 40, 100, 1000, 4000])
    s = "".join(str(rng.randint(1 if i == 0 else 0, 9)) for i in range(digits))
    return ("-" if rng.chance(0.3) else "") + s


def const_src(rng, depth=2):
    """Source text of an expression every supported compiler folds to one constant."""
    r = rng.random()
    if depth <= 0 or r < 0.62:
        if rng.chance(0.04):
            return big_int_src(rng)
        return zoo_scalar_src(rng)
    n = rng.choice([0, 1, 1, 2, 2, 3, 4])
    items = [const_src(rng, depth - 1) for _ in range(n)]
    if n == 1:
        return "(" + items[0] + ",)"
    return "(" + ", ".join(items) + ")"


NAN_SPELLINGS = ["(1e999-1e999)", "-(1e999-1e999)", "(1e999*0)", "(1e999-1e999)*1j", "((1e999-1e999), 1)"]


def frozenset_test_src(rng, depth=1):
    """`name in {c, ...}` -- compiles to a frozenset constant (elements scalars or tuples)."""
    n = rng.choice([1, 2, 2, 3, 3, 4, 6])
    items = [const_src(rng, depth) for _ in range(n)]
    if rng.chance(0.12):
        # several DISTINCT NaN objects in one set (each spelling folds to its own object)
        items += rng.sample(NAN_SPELLINGS, rng.randint(2, 3))
    return "{" + ", ".join(items) + "}"


def eval_const(src):
    with warnings.catch_warnings():
        warnings.simplefilter("ignore")
        return eval(compile(src, "<zoo>", "eval"), {"__builtins__": {}}, {})


def zoo_value(rng, depth=3):
    """A Python VALUE for grafting into co_consts by hand: may nest frozensets in tuples
    and tuples in frozensets to depth 3, which no compiler emits but CPython accepts."""
    r = rng.random()
    if depth <= 0 or r < 0.5:
        if rng.chance(0.04):
            return eval_const(big_int_src(rng))
        return eval_const(zoo_scalar_src(rng))
    n = rng.choice([0, 1, 2, 2, 3])
    items = [zoo_value(rng, depth - 1) for _ in range(n)]
    if r < 0.78:
        return tuple(items)
    return frozenset(items)


# ---------------------------------------------------------------------------------------
# grammar generator
# ---------------------------------------------------------------------------------------

IDENTS = ["a", "b", "c", "x", "y", "z", "foo", "bar", "baz", "self", "cls", "_", "__x", "value",
          "item", "items", "args", "kwargs", "fn", "cb", "n", "i", "j", "k", "r\u00e9sum\u00e9",
          "\u043f\u0435\u0440", "\u03bb_", "\u53d8\u91cf", "data", "obj"]
ATTRS = ["real", "append", "items", "x", "__class__", "keys", "strip", "\u00e9t\u00e9"]
MODS = ["os", "sys", "os.path", "collections.abc", "json", "a.b.c"]
BINOPS = ["+", "-", "*", "/", "//", "%", "**", "<<", ">>", "&", "|", "^", "@"]
CMPOPS = ["<", ">", "==", "!=", "<=", ">=", "is", "is not", "in", "not in"]
DOCSTRINGS = [
    "'doc'", "'''multi\nline'''", "'\\xe9 doc'", "'\\U0001f600'", "'\\udc80 lone'", "''", "'a\\x00b'",
    "'''" + "d" * 300 + "'''", "'\\u20ac'", "'doc' 'joined'", "'\\udc80 \\U0001fad0 \\U0001fae8'", "'caf\\xe9 \\ud800'",
    # lines made only of blanks / tabs INSIDE a string literal
    "'''first\n    \nthird'''", "'''a\n\t\nb\n  \n'''",
]


class Gen(object):
    """One program.  All choices come from rng; version-gated syntax honours `ver`."""

    def __init__(self, rng, ver, size="small"):
        self.rng = rng
        self.ver = tuple(ver[:2])
        self.size = size
        self.budget = {"small": 14, "medium": 60, "large": 220}[size]
        self.fn_stack = []  # 'def' | 'async' | 'lambda' | 'class'
        self.loop = 0
        self.counter = 0

    # -- helpers -------------------------------------------------------------------
    def ident(self):
        return self.rng.choice(IDENTS)

    def fresh(self, prefix="v"):
        self.counter += 1
        return "%s%d" % (prefix, self.counter)

    def in_fn(self):
        return bool(self.fn_stack) and self.fn_stack[-1] in ("def", "async")

    def in_async(self):
        return bool(self.fn_stack) and self.fn_stack[-1] == "async"

    def spend(self, n=1):
        self.budget -= n
        return self.budget > 0

    # -- expressions ---------------------------------------------------------------
    def expr(self, d=2):
        rng = self.rng
        if d <= 0 or self.budget <= 0:
            return rng.weighted([(self.ident, 5), (lambda: const_src(rng, 1), 4)])()
        self.budget -= 0  # expressions are cheap
        kinds = [
            ("name", 6), ("const", 6), ("binop", 4), ("unary", 2), ("bool", 3), ("cmp", 3),
            ("call", 4), ("attr", 3), ("sub", 2), ("slice", 1), ("lambda", 1), ("ifexp", 2),
            ("list", 1), ("tuple", 1), ("set", 1), ("dict", 1), ("comp", 2), ("fstr", 1),
            ("inset", 2), ("intuple", 1), ("star", 1), ("chain", 1),
        ]
        if self.in_async():
            kinds.append(("await", 2))
        if self.in_fn() and self.fn_stack[-1] != "lambda":
            kinds.append(("yield", 1))
        if self.ver >= (3, 8):
            kinds.append(("walrus", 1))
        k = rng.weighted(kinds)
        e = self.expr
        if k == "name":
            return self.ident()
        if k == "const":
            return const_src(rng, 2)
        if k == "binop":
            return "(%s %s %s)" % (e(d - 1), rng.choice(BINOPS), e(d - 1))
        if k == "unary":
            return "(%s%s)" % (rng.choice(["-", "+", "~", "not "]), e(d - 1))
        if k == "bool":
            op = rng.choice([" and ", " or "])
            return "(" + op.join(e(d - 1) for _ in range(rng.randint(2, 3))) + ")"
        if k == "cmp":
            return "(%s %s %s)" % (e(d - 1), rng.choice(CMPOPS), e(d - 1))
        if k == "chain":
            return "(%s < %s <= %s)" % (self.ident(), e(d - 1), self.ident())
        if k == "call":
            args = [e(d - 1) for _ in range(rng.randint(0, 3))]
            if rng.chance(0.3):
                args.append("%s=%s" % (self.fresh("kw"), e(d - 1)))
            if rng.chance(0.15):
                args.append("*" + self.ident())
            if rng.chance(0.15):
                args.append("**" + self.ident())
            return "%s(%s)" % (self.ident(), ", ".join(args))
        if k == "attr":
            return "%s.%s" % (self.ident(), rng.choice(ATTRS))
        if k == "sub":
            return "%s[%s]" % (self.ident(), e(d - 1))
        if k == "slice":
            return "%s[%s:%s]" % (self.ident(), e(d - 1), rng.choice(["", "-1", self.ident()]))
        if k == "lambda":
            self.fn_stack.append("lambda")
            try:
                sig = self.signature(simple=True)
                return "(lambda %s: %s)" % (sig, e(d - 1))
            finally:
                self.fn_stack.pop()
        if k == "ifexp":
            return "(%s if %s else %s)" % (e(d - 1), e(d - 1), e(d - 1))
        if k == "list":
            return "[" + ", ".join(e(d - 1) for _ in range(rng.randint(0, 3))) + "]"
        if k == "tuple":
            return "(" + "".join(e(d - 1) + ", " for _ in range(rng.randint(1, 3))) + ")"
        if k == "set":
            return "{" + ", ".join(e(d - 1) for _ in range(rng.randint(1, 3))) + "}"
        if k == "dict":
            return "{" + ", ".join("%s: %s" % (const_src(rng, 0), e(d - 1)) for _ in range(rng.randint(0, 3))) + "}"
        if k == "comp":
            return self.comprehension(d)
        if k == "fstr":
            return "f'p{%s}q{%s!r:>{%s}}'" % (self.ident(), self.ident(), self.ident())
        if k == "inset":
            return "(%s %s %s)" % (self.ident(), rng.choice(["in", "not in"]), frozenset_test_src(rng))
        if k == "intuple":
            return "(%s in [%s])" % (self.ident(), ", ".join(const_src(rng, 1) for _ in range(rng.randint(1, 4))))
        if k == "star":
            return "[*%s, %s]" % (self.ident(), e(d - 1))
        if k == "await":
            return "(await %s)" % e(d - 1)
        if k == "yield":
            if self.in_async():
                return "(yield %s)" % e(d - 1)
            return rng.choice(["(yield %s)", "(yield from %s)"]) % e(d - 1)
        if k == "walrus":
            return "(%s := %s)" % (self.fresh("w"), e(d - 1))
        return self.ident()

    def comprehension(self, d):
        rng = self.rng
        # comprehension bodies are their own scope: no yield / walrus-shadow trouble inside
        saved = self.fn_stack
        self.fn_stack = saved + ["comp"]
        try:
            tgt = self.fresh("t")
            it = self.ident()
            elt = rng.choice([tgt, "(%s, %s)" % (tgt, self.ident()), "%s.%s" % (tgt, rng.choice(ATTRS)),
                              "(%s %s %s)" % (tgt, rng.choice(BINOPS), const_src(rng, 1))])
            cond = ""
            if rng.chance(0.5):
                cond = " if %s %s %s" % (tgt, rng.choice(["in", "not in", "==", "<"]),
                                         rng.choice([frozenset_test_src(rng), const_src(rng, 1), self.ident()]))
            second = ""
            if rng.chance(0.25):
                t2 = self.fresh("t")
                second = " for %s in %s" % (t2, tgt)
            is_async = "async " if (len(saved) and saved[-1] == "async" and rng.chance(0.3)) else ""
            body = "%s %sfor %s in %s%s%s" % (elt, is_async, tgt, it, second, cond)
            k = rng.choice(["list", "set", "gen", "dict"])
            if k == "list":
                return "[" + body + "]"
            if k == "set":
                return "{" + body + "}"
            if k == "gen":
                return "(" + body + ")"
            return "{%s: %s %sfor %s in %s%s%s}" % (tgt, elt, is_async, tgt, it, second, cond)
        finally:
            self.fn_stack = saved

    # -- signatures ----------------------------------------------------------------
    def signature(self, simple=False):
        rng = self.rng
        names = []

        def nm():
            n = self.fresh("p") if rng.chance(0.6) else self.ident()
            while n in names:
                n = self.fresh("p")
            names.append(n)
            return n

        def dflt():
            return "=" + const_src(rng, 1)

        def ann():
            if simple or not rng.chance(0.25):
                return ""
            return ": " + rng.choice(["int", "'str'", "List[int]", self.ident()])

        parts = []
        npos = rng.choice([0, 0, 1, 2, 3]) if self.ver >= (3, 8) and rng.chance(0.35) else 0
        nreg = rng.choice([0, 1, 1, 2, 3, 5])
        nkw = rng.choice([0, 0, 0, 1, 2])
        had_default = False
        for i in range(npos):
            p = nm() + ann()
            if had_default or rng.chance(0.2):
                p += dflt()
                had_default = True
            parts.append(p)
        if npos:
            parts.append("/")
        for i in range(nreg):
            p = nm() + ann()
            if had_default or rng.chance(0.3):
                p += dflt()
                had_default = True
            parts.append(p)
        va = rng.chance(0.3)
        if va:
            parts.append("*" + nm() + ann())
        elif nkw:
            parts.append("*")
        for i in range(nkw):
            p = nm() + ann()
            if rng.chance(0.5):
                p += dflt()
            parts.append(p)
        if rng.chance(0.25):
            parts.append("**" + nm() + ann())
        self.last_params = list(names)
        return ", ".join(parts)

    # -- statements ----------------------------------------------------------------
    def block(self, d, min_n=1, max_n=4):
        out = []
        n = self.rng.randint(min_n, max_n)
        for _ in range(n):
            if not self.spend():
                break
            out.extend(self.stmt(d))
            if self.rng.chance(0.06):
                out.extend([""] * self.rng.choice([1, 2, 126, 127, 128, 129, 254, 255, 256, 300]))
        if not out or all(not l.strip() for l in out):
            out.append("pass")
        return out

    def indent(self, lines):
        return ["    " + l if l else l for l in lines]

    def stmt(self, d):
        rng = self.rng
        kinds = [("assign", 8), ("expr", 5), ("aug", 2), ("if", 4), ("for", 3), ("while", 2), ("try", 3),
                 ("with", 2), ("def", 5 if d > 0 else 0), ("class", 2 if d > 0 else 0), ("import", 2),
                 ("assert", 1), ("del", 1), ("raise", 1), ("ann", 1), ("pass", 1), ("multiline", 2),
                 ("global", 1), ("unpack", 1), ("bigtable", 0.3), ("longif", 0.3), ("longfor", 0.3)]
        if self.in_fn():
            kinds += [("return", 3), ("dead", 1), ("closure", 2 if d > 0 else 0), ("nonlocal", 1 if d > 0 else 0)]
        if self.loop:
            kinds += [("break", 1), ("continue", 1)]
        if self.in_async():
            kinds += [("asyncfor", 2), ("asyncwith", 2)]
        if self.ver >= (3, 10):
            kinds.append(("match", 1))
        if d <= 0:
            kinds = [(k, w) for k, w in kinds if k not in ("if", "for", "while", "try", "with", "match",
                                                             "asyncfor", "asyncwith", "longif", "longfor")] + [("assign", 5)]
        k = rng.weighted(kinds)
        e = self.expr
        if k == "assign":
            t = rng.choice([self.ident(), "%s.%s" % (self.ident(), rng.choice(ATTRS)), "%s[%s]" % (self.ident(), e(1)),
                            "%s = %s" % (self.ident(), self.ident())])
            return ["%s = %s" % (t, e(2))]
        if k == "expr":
            return [e(3)]
        if k == "aug":
            return ["%s %s= %s" % (self.ident(), rng.choice(BINOPS), e(2))]
        if k == "ann":
            return ["%s: %s = %s" % (self.ident(), rng.choice(["int", "'T'", self.ident()]), e(1))]
        if k == "unpack":
            return ["%s, *%s = %s" % (self.ident(), self.fresh("rest"), e(1))]
        if k == "pass":
            return ["pass"]
        if k == "assert":
            return ["assert %s, %s" % (e(1), const_src(rng, 0))]
        if k == "del":
            return ["del %s" % self.ident()]
        if k == "raise":
            return [rng.choice(["raise %s" % e(1), "raise %s from %s" % (e(1), self.ident()), "raise ValueError(%s)" % const_src(rng, 0)])]
        if k == "import":
            m = rng.choice(MODS)
            return [rng.choice(["import %s" % m, "import %s as %s" % (m, self.ident()),
                                "from %s import %s" % (m, self.ident()),
                                "from %s import %s as %s, %s" % (m, self.ident(), self.ident(), self.fresh("im")),
                                "from . import %s" % self.ident() if False else "from %s import *" % m if not self.fn_stack else "import %s" % m])]
        if k == "global":
            n = self.fresh("g")
            return ["global %s" % n, "%s = %s" % (n, e(1))] if self.fn_stack and self.fn_stack[-1] != "class" else ["%s = %s" % (n, e(1))]
        if k == "multiline":
            # backward / forward line jumps inside one statement
            gap = rng.choice([1, 1, 2, 127, 128, 256])
            return ["%s(" % self.ident()] + [""] * (gap - 1) + ["    %s," % e(1), "    %s)" % e(1)]
        if k == "return":
            return [rng.choice(["return", "return %s" % e(2), "return %s" % const_src(rng, 2)])]
        if k == "dead":
            # code after return: nested defs there are compiled away (or left unreferenced)
            return ["return %s" % e(1), "def %s():" % self.fresh("dead"), "    return %s" % const_src(rng, 1), "%s = %s" % (self.ident(), const_src(rng, 1))]
        if k == "break":
            return ["break"]
        if k == "continue":
            return ["continue"]
        if k == "if":
            out = ["if %s:" % e(2)] + self.indent(self.block(d - 1, 1, 3))
            for _ in range(rng.choice([0, 0, 1, 2])):
                out += ["elif %s:" % e(1)] + self.indent(self.block(d - 1, 1, 2))
            if rng.chance(0.4):
                out += ["else:"] + self.indent(self.block(d - 1, 1, 2))
            return out
        if k == "longif":
            # a body long enough that the jump over it needs an EXTENDED_ARG
            n = rng.choice([40, 70, 130])
            body = ["%s = %s + %d" % (self.ident(), self.ident(), i) for i in range(n)]
            return ["if %s:" % self.ident()] + self.indent(body) + ["else:"] + self.indent(["%s = %s" % (self.ident(), e(1))])
        if k == "longfor":
            # a loop (or try) whose RELATIVE jump needs an EXTENDED_ARG, with an early `if` (absolute jump) inside
            n = rng.choice([90, 150, 300])
            body = ["if %s:" % self.ident(), "    %s = %s" % (self.ident(), const_src(rng, 0))]
            body += ["%s = %s + %d" % (self.ident(), self.ident(), i) for i in range(n)]
            head = rng.choice(["for %s in %s:" % (self.ident(), self.ident()), "try:", "with %s:" % self.ident()])
            out = [head] + self.indent(body)
            if head == "try:":
                out += ["finally:", "    pass"]
            return out
        if k == "for":
            self.loop += 1
            try:
                out = ["for %s in %s:" % (rng.choice([self.ident(), "%s, %s" % (self.fresh("fa"), self.fresh("fb"))]), e(1))]
                out += self.indent(self.block(d - 1, 1, 3))
            finally:
                self.loop -= 1
            if rng.chance(0.25):
                out += ["else:"] + self.indent(self.block(d - 1, 1, 2))
            return out
        if k == "while":
            self.loop += 1
            try:
                out = ["while %s:" % rng.choice([e(1), "True", "1", "not %s < %s < %s" % (self.ident(), self.ident(), self.ident())])]
                out += self.indent(self.block(d - 1, 1, 3))
            finally:
                self.loop -= 1
            if rng.chance(0.2):
                out += ["else:"] + self.indent(self.block(d - 1, 1, 2))
            return out
        if k == "try":
            saved_loop = self.loop
            out = ["try:"] + self.indent(self.block(d - 1, 1, 3))
            shape = rng.choice(["except", "except", "finally", "both", "multi"])
            if shape in ("except", "both", "multi"):
                out += [rng.choice(["except %s:" % self.ident(), "except (%s, ValueError) as %s:" % (self.ident(), self.fresh("exc")), "except Exception as %s:" % self.fresh("exc")])]
                out += self.indent(self.block(d - 1, 1, 2))
                if shape == "multi":
                    out += ["except:"] + self.indent(self.block(d - 1, 1, 2))
                if rng.chance(0.3):
                    out += ["else:"] + self.indent(self.block(d - 1, 1, 2))
            if shape in ("finally", "both"):
                # 'continue' inside finally is a SyntaxError before 3.8: no loop statements here
                self.loop = 0
                out += ["finally:"] + self.indent(self.block(d - 1, 1, 2))
                self.loop = saved_loop
            return out
        if k == "with":
            items = ["%s as %s" % (e(1), self.fresh("cm")) if rng.chance(0.6) else e(1) for _ in range(rng.randint(1, 2))]
            return ["with %s:" % ", ".join(items)] + self.indent(self.block(d - 1, 1, 3))
        if k == "asyncfor":
            self.loop += 1
            try:
                return ["async for %s in %s:" % (self.ident(), e(1))] + self.indent(self.block(d - 1, 1, 2))
            finally:
                self.loop -= 1
        if k == "asyncwith":
            return ["async with %s as %s:" % (e(1), self.fresh("acm"))] + self.indent(self.block(d - 1, 1, 2))
        if k == "match":
            subj = self.ident()
            out = ["match %s:" % subj]
            cases = ["case 1 | 2:", "case [%s, *%s]:" % (self.fresh("m"), self.fresh("m")), "case {'k': %s}:" % self.fresh("m"),
                     "case str() as %s:" % self.fresh("m"), "case (%s) if %s:" % (const_src(rng, 0) if False else "0", self.ident()), "case _:"]
            k2 = rng.randint(1, 4)
            chosen = rng.sample(cases[:-1], k2) + ["case _:"]
            for c in chosen:
                out += self.indent([c] + self.indent(self.block(d - 1, 1, 2)))
            return out
        if k in ("def", "closure"):
            return self.funcdef(d, closure=(k == "closure"))
        if k == "nonlocal":
            v = self.fresh("nl")
            inner = self.fresh("inner")
            return ["%s = %s" % (v, e(1)), "def %s():" % inner, "    nonlocal %s" % v, "    %s = %s" % (v, e(1)), "    return %s" % v]
        if k == "class":
            return self.classdef(d)
        if k == "bigtable":
            n = rng.choice([257, 300])
            if rng.chance(0.5):
                return ["%s = [%s]" % (self.ident(), ", ".join("nm%d" % i for i in range(n)))]
            return ["%s(%s)" % (self.ident(), ", ".join(str(1000 + i) for i in range(n)))]
        return ["pass"]

    def funcdef(self, d, closure=False):
        rng = self.rng
        is_async = rng.chance(0.25)
        self.fn_stack.append("async" if is_async else "def")
        saved_loop = self.loop
        self.loop = 0
        try:
            name = rng.choice([self.fresh("f"), self.ident()])
            sig = self.signature()
            params = self.last_params
            ret = " -> %s" % rng.choice(["int", "'X'", "None"]) if rng.chance(0.2) else ""
            head = "%sdef %s(%s)%s:" % ("async " if is_async else "", name, sig, ret)
            body = []
            doc = rng.random()
            if doc < 0.35:
                body.append(rng.choice(DOCSTRINGS))
            elif doc < 0.45:
                # a string that is NOT the docstring: first statement is not a bare string
                body += ["%s = %s" % (self.ident(), rng.choice(DOCSTRINGS))]
            elif doc < 0.55:
                # first constant is a string but not a docstring
                body += ["return %s" % rng.choice(DOCSTRINGS)] if rng.chance(0.5) else ["%s(%s)" % (self.ident(), rng.choice(DOCSTRINGS))]
            if closure and params:
                # make a parameter a cell variable
                inner = self.fresh("cl")
                body += ["def %s(%s):" % (inner, self.fresh("q")), "    return %s" % rng.choice(params)]
                body += ["%s = lambda: (%s, %s)" % (self.fresh("lm"), params[-1], self.ident())]
            body += self.block(d - 1, 1, 4)
            if rng.chance(0.3) and not is_async:
                body.append("yield %s" % self.expr(1))
            elif rng.chance(0.2) and is_async:
                body.append("yield %s" % self.expr(1))
            decos = ["@%s" % self.ident()] if rng.chance(0.15) else []
            return decos + [head] + self.indent(body)
        finally:
            self.fn_stack.pop()
            self.loop = saved_loop

    def classdef(self, d):
        rng = self.rng
        self.fn_stack.append("class")
        saved_loop = self.loop
        self.loop = 0
        try:
            name = self.fresh("C")
            bases = rng.choice(["", "(object)", "(%s)" % self.ident(), "(%s, metaclass=%s)" % (self.ident(), self.ident())])
            body = []
            if rng.chance(0.4):
                body.append(rng.choice(DOCSTRINGS))
            body.append("%s = %s" % (self.ident(), const_src(rng, 1)))
            if rng.chance(0.6):
                # method using super() -> __class__ cell
                self.fn_stack.append("def")
                try:
                    body += ["def %s(self, %s):" % (self.fresh("m"), self.signature(simple=True) or "q=0")]
                    body += self.indent([rng.choice(["return super().%s()" % rng.choice(ATTRS), "return __class__", "return self.%s" % rng.choice(ATTRS)])])
                finally:
                    self.fn_stack.pop()
            body += self.block(d - 1, 0, 2)
            return ["class %s%s:" % (name, bases)] + self.indent(body)
        finally:
            self.fn_stack.pop()
            self.loop = saved_loop

    def program(self):
        rng = self.rng
        lines = []
        if rng.chance(0.12):
            lines.append(rng.choice(DOCSTRINGS))
        if rng.chance(0.15):
            lines.append("from __future__ import annotations")
        depth = {"small": 2, "medium": 3, "large": 3}[self.size]
        guard = 0
        while self.budget > 0 and guard < 400:
            guard += 1
            self.spend()
            lines.extend(self.stmt(depth))
            if rng.chance(0.05):
                lines.extend([""] * rng.choice([1, 3, 127, 128, 255, 300]))
        return "\n".join(lines) + ("\n" if rng.chance(0.8) else "")


def try_compile(src, filename="<gen>", mode="exec", optimize=0, flags=0):
    with warnings.catch_warnings():
        warnings.simplefilter("ignore")
        try:
            return compile(src, filename, mode, flags, True, optimize)
        except (SyntaxError, ValueError, OverflowError, RecursionError, MemoryError):
            return None


def gen_source(rng, size="small", ver=None, tries=12):
    """A generated program that compiles on the running interpreter (None if none found)."""
    ver = ver or sys.version_info
    for _ in range(tries):
        src = Gen(rng.fork("gen"), ver, size).program()
        if try_compile(src) is not None:
            return src
    return "pass\n"


# focused templates: every kind of scope x signature shape x docstring shape
def template_source(rng, ver=None):
    ver = tuple((ver or sys.version_info)[:2])
    if rng.chance(0.002):
        # the 2^16 boundary: a table with 65537 entries whose entries 65535 and 65536 are used once more at the end
        # (operands 0xFFFF and 0x10000: two vs three code units)
        if rng.chance(0.5):
            return "x = [" + ", ".join("n%d" % i for i in range(65537)) + "]\ny = n65535\nz = n65536\n"
        return "x = f(" + ", ".join(str(100000 + i) for i in range(65537)) + ")\ny = 165535\nz = 165536\n"
    g = Gen(rng.fork("tmpl"), ver, "small")
    sig = g.signature()
    params = g.last_params
    doc = rng.choice(DOCSTRINGS + ["", "", ""])
    c1 = const_src(rng, 2)
    c2 = const_src(rng, 2)
    fs = frozenset_test_src(rng, 1)
    p = params[0] if params else "None"
    kind = rng.choice(["def", "async", "gen", "asyncgen", "lambda", "comp", "class", "closure", "module", "deaddef", "annot", "nestedclass", "longline", "longloop"])
    fut = "from __future__ import annotations\n" if rng.chance(0.2) else ""
    if kind == "def":
        src = "def f(%s):\n    %s\n    x = %s\n    return (x in %s, %s)\n" % (sig, doc or "pass", c1, fs, c2)
    elif kind == "async":
        src = "async def f(%s):\n    %s\n    await x\n    return %s\n" % (sig, doc or "pass", c1)
    elif kind == "gen":
        src = "def f(%s):\n    %s\n    yield %s\n    yield from %s\n" % (sig, doc or "pass", c1, p)
    elif kind == "asyncgen":
        src = "async def f(%s):\n    %s\n    yield %s\n    await %s\n" % (sig, doc or "pass", c1, p)
    elif kind == "lambda":
        g.fn_stack.append("lambda")
        s2 = g.signature(simple=True)
        src = "f = lambda %s: (%s, %s in %s)\n" % (s2, c1, "x", fs)
    elif kind == "comp":
        src = "def f(%s):\n    return [(y, %s) for y in %s if y not in %s], {y: %s for y in z}, (y async for y in z) if 0 else 1\n" % (sig, c1, p, fs, c2)
        if try_compile(src) is None:
            src = "def f(%s):\n    return [(y, %s) for y in %s if y not in %s], {y: %s for y in z}\n" % (sig, c1, p, fs, c2)
    elif kind == "class":
        src = "class C(B):\n    %s\n    a = %s\n    def m(self, %s):\n        %s\n        return super().m(%s)\n" % (doc or "pass", c1, sig or "q=0", doc or "pass", c2)
    elif kind == "closure":
        src = "def f(%s):\n    %s\n    v = %s\n    def g(w=%s):\n        nonlocal v\n        v = (w, %s)\n        return lambda: (v, w)\n    return g\n" % (sig, doc or "pass", c1, c2, p)
    elif kind == "deaddef":
        src = "def f(%s):\n    return %s\n    def dead(a):\n        return a in %s\n    x = %s\n" % (sig, c1, fs, c2)
    elif kind == "nestedclass":
        # a class body nested in a method: __class__ is a FREE variable of the inner class body (read from the
        # enclosing method's cell) and at the same time a CELL of it (its own method uses super())
        src = ("class A(B):\n    %s\n    def f(self, %s):\n        class Inner(A):\n            y = __class__\n            z = %s\n"
               "            def g(self):\n                return super().g(), __class__\n        return Inner, super().f()\n") % (doc or "pass", sig or "q=0", c1)
    elif kind == "longloop":
        # one code object with a RELATIVE jump that needs an EXTENDED_ARG (loop/try/with spanning a long body), an
        # early `if` inside it (absolute jump to a target after the relative jump) and nothing after it
        n = rng.choice([90, 150, 300])
        head = rng.choice(["for y in a:", "try:", "with a:"])
        body = "\n".join("        v%d = y + %d" % (i % 7, i) for i in range(n))
        tail = "\n    finally:\n        pass" if head == "try:" else ""
        src = "def f(a, y=0):\n    %s\n        if y:\n            v0 = %s\n%s%s\n" % (head, c1, body, tail)
    elif kind == "longline":
        # more than 255 bytes of bytecode on one line, then a big forward or backward line step
        gap = rng.choice([128, 129, 200, 256, 300])
        src = "y = x" + " + x" * rng.choice([90, 140]) + "\n" * gap + "z = (y,\n" + "\n" * rng.choice([0, 127, 128, 255]) + "     %s)\n" % c1
    elif kind == "annot":
        src = "def f(%s) -> 'R':\n    v: int = %s\n    return v\nw: List[int] = %s\n" % (sig, c1, c2)
    else:
        src = "%s\nx = %s\ny = x in %s\nz = %s\n" % (doc or "pass", c1, fs, c2)
    src = fut + src
    if try_compile(src) is None:
        return "def f(a, b=1, *c, d, **e):\n    'doc'\n    return a in %s\n" % fs
    return src


# ---------------------------------------------------------------------------------------
# corpus and stdlib
# ---------------------------------------------------------------------------------------

_CORPUS = None
_STDLIB = None


def corpus_items(tree):
    """[(name, path-or-None, source-or-None)] -- literal examples first, then files (sorted)."""
    global _CORPUS
    if _CORPUS is None:
        items = [("ex:" + n, None, s) for n, s in REPO_EXAMPLES]
        d = os.path.join(tree, "code_data", "_test_minimized")
        if os.path.isdir(d):
            for fn in sorted(os.listdir(d)):
                if fn.endswith(".py"):
                    items.append(("min:" + fn, os.path.join(d, fn), None))
        _CORPUS = items
    return _CORPUS


def stdlib_items(max_bytes):
    """[(relative name, path, size)] of the running interpreter's Lib/*.py (sorted, size capped)."""
    global _STDLIB
    if _STDLIB is None:
        root = os.path.dirname(os.__file__)
        out = []
        for sub in ["", "json", "collections", "email", "asyncio", "importlib", "xml/etree", "logging", "concurrent/futures", "unittest"]:
            d = os.path.join(root, sub)
            if not os.path.isdir(d):
                continue
            for fn in sorted(os.listdir(d)):
                p = os.path.join(d, fn)
                if fn.endswith(".py") and os.path.isfile(p):
                    out.append(((sub + "/" if sub else "") + fn, p, os.path.getsize(p)))
        _STDLIB = out
    return [x for x in _STDLIB if x[2] <= max_bytes]


def read_source(path):
    with open(path, "rb") as f:
        data = f.read()
    try:
        return data.decode("utf-8")
    except UnicodeDecodeError:
        return data.decode("latin-1")


def pick_program(rng, tree, tier="quick", mix=None):
    """Returns a program descriptor {kind, name, src?, path?} chosen by seed.

    The descriptor is literal: replay re-reads the same file / embeds the same text."""
    mix = mix or [("gen", 5), ("tmpl", 4), ("corpus", 2), ("stdlib", 1)]
    k = rng.weighted(mix)
    if k == "gen":
        size = rng.weighted([("small", 8), ("medium", 3 if tier == "quick" else 4), ("large", 0 if tier == "quick" else 1)])
        return {"kind": "gen", "name": "gen-" + size, "src": gen_source(rng, size)}
    if k == "tmpl":
        return {"kind": "tmpl", "name": "tmpl", "src": template_source(rng)}
    if k == "corpus":
        items = corpus_items(tree)
        cap = 20000 if tier == "quick" else 400000
        for _ in range(8):
            name, path, src = rng.choice(items)
            if path is not None and os.path.getsize(path) > cap:
                continue
            if path is None:
                return {"kind": "corpus", "name": name, "src": src}
            return {"kind": "corpus", "name": name, "relpath": os.path.relpath(path, tree)}
        return {"kind": "corpus", "name": "ex:fn", "src": "def fn(): pass"}
    items = stdlib_items(12000 if tier == "quick" else 120000)
    name, path, _ = rng.choice(items)
    return {"kind": "stdlib", "name": name, "stdlib": name}


def program_source(desc, tree):
    if "src" in desc:
        return desc["src"]
    if "relpath" in desc:
        return read_source(os.path.join(tree, desc["relpath"]))
    if "stdlib" in desc:
        return read_source(os.path.join(os.path.dirname(os.__file__), desc["stdlib"]))
    raise ValueError("bad program descriptor")


def all_code_objects(code):
    """Module code object followed by every nested one, depth-first in constant order."""
    out = [code]
    for k in code.co_consts:
        if hasattr(k, "co_code"):
            out.extend(all_code_objects(k))
    return out
