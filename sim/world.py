"""Engine A substrate: the pool of live objects, the literal operation executor and the
C12 shadow model.  Runs in-process on CPython 3.7 .. 3.10.

An *op* is a JSON-able dict.  Generation and replay go through the same `execute`: under
generation the scheduler fills in seeded decisions (abort position, switch list) and the
filled-in op is what gets recorded, so a recorded op list replays literally, without a PRNG.
Ops name their inputs by the id of the op that produced them; an op whose input is missing
(dropped by the minimiser, or its producer raised) is skipped.
"""
import copy
import dataclasses
import hashlib
import json
import marshal
import os
import pickle
import re
import sys
import types

from . import boot, fp, sched, workload

KIND_OF_RESULT = {
    "compile": "code", "nested": "code", "graft": "code", "perturb": "code", "marshal_trip": "code",
    "from_code": "data", "to_code": "code", "normalize": "data", "to_json_data": "doc",
    "from_json_data": "data", "dumps": "text", "loads": "doc", "deepcopy": "doc", "alias": "doc",
    "pickle_trip": "data", "clone": "data", "deepcopy_data": "data",
}
API_INPUT_KIND = {
    "from_code": "code", "to_code": "data", "normalize": "data", "to_json_data": "data", "from_json_data": "doc",
}
API_OPS = sorted(API_INPUT_KIND)


def text_digest(s):
    return hashlib.sha256(s.encode("utf-8", "surrogatepass")).hexdigest()[:16]


def snap(kind, v):
    if kind == "code":
        return fp.code_fp(v)
    if kind == "data":
        return fp.data_fp(v)
    if kind == "doc":
        return fp.doc_fp(v)
    if kind == "text":
        return ("text", len(v), text_digest(v))
    return ("?", kind)


class Slot(object):
    __slots__ = ("id", "kind", "value", "snap", "lineage", "route", "tainted", "normalized", "src_data", "made_by_lib", "uses", "decoded", "meta")

    def __init__(self, id, kind, value, lineage, route, snapshot=None):
        self.id = id
        self.kind = kind
        self.value = value
        self.snap = snapshot if snapshot is not None else snap(kind, value)
        self.lineage = lineage
        self.route = route
        self.tainted = False
        self.normalized = False
        self.src_data = None  # for a doc returned by to_json_data: id of the data slot
        self.made_by_lib = False
        self.uses = 0
        self.decoded = False
        self.meta = {}


TRACE_EVENTS = bool(__import__("os").environ.get("VERIF_TRACE_EVENTS"))


class Violation(Exception):
    pass


def norm_loc(loc):
    """Locations are reported relative to the innermost code document / CodeData: the
    chain of `blocks[*][*].arg.constant.` (or `_additional_args[*].constant.`) prefixes that
    only says how deeply the code object is nested is dropped."""
    if ":" in loc:
        head, rest = loc.split(":", 1)
    else:
        head, rest = None, loc
    marker = ".constant."
    while marker in rest:
        pre, post = rest.split(marker, 1)
        if pre.startswith("blocks[*][*].arg") or pre.startswith("_additional_args[*]"):
            rest = post
        else:
            break
    rest = re.sub(r"(\[\*\])+", "[*]", rest)
    return (head + ":" + rest) if head is not None else rest


def mutable_ids_in_data(d, acc=None):
    """ids of any list/dict/set reachable from a CodeData (there should be none)."""
    if acc is None:
        acc = {}
    if dataclasses.is_dataclass(d) and not isinstance(d, type):
        for f in dataclasses.fields(d):
            mutable_ids_in_data(getattr(d, f.name), acc)
    elif isinstance(d, (tuple, frozenset)):
        for x in d:
            mutable_ids_in_data(x, acc)
    elif isinstance(d, (list, set)):
        acc[id(d)] = d
        for x in d:
            mutable_ids_in_data(x, acc)
    elif isinstance(d, dict):
        acc[id(d)] = d
        for x in d.values():
            mutable_ids_in_data(x, acc)
    return acc


_REF_COUNTER = [0]


SUBMODULES = ["dataclass_hide_default", "_constants", "_flags_data", "_args", "_line_mapping", "_blocks", "_code_data", "_normalize", "_json_data"]


def fresh_library_copy(preimport=False):
    """A second, PRISTINE copy of the package under a private name: fresh module objects, hence fresh
    module-level caches, memo tables and enum member maps.  Used as the reference for invariant P5.
    preimport=True imports every sub-module but calls nothing: a VIRGIN library (lazy tables unbuilt)."""
    import importlib
    import importlib.util

    _REF_COUNTER[0] += 1
    name = "code_data_pristine_%d" % _REF_COUNTER[0]
    pkg_dir = os.path.join(boot.TREE, "code_data")
    spec = importlib.util.spec_from_file_location(name, os.path.join(pkg_dir, "__init__.py"), submodule_search_locations=[pkg_dir])
    mod = importlib.util.module_from_spec(spec)
    sys.modules[name] = mod
    try:
        spec.loader.exec_module(mod)
        if preimport:
            for sub in SUBMODULES:
                importlib.import_module(name + "." + sub)
    except BaseException:
        drop_library_copy(name)
        raise
    return name, mod


def drop_library_copy(name):
    for k in list(sys.modules):
        if k == name or k.startswith(name + "."):
            del sys.modules[k]


def convert_into(obj, mod):
    """Rebuild a CodeData tree from the classes of another copy of the package (same class names)."""
    t = type(obj)
    if dataclasses.is_dataclass(obj) and not isinstance(obj, type):
        cls = getattr(mod, t.__name__)
        return cls(**{f.name: convert_into(getattr(obj, f.name), mod) for f in dataclasses.fields(obj)})
    if t is tuple:
        return tuple(convert_into(x, mod) for x in obj)
    if t is frozenset:
        return frozenset(convert_into(x, mod) for x in obj)
    return obj


def thunk_for(mod, name, arg_value):
    """A callable making the API call `name` against the package copy `mod` on an equal argument."""
    CD = mod.CodeData
    if name == "from_code":
        return lambda: CD.from_code(arg_value)
    if name == "from_json_data":
        return lambda: CD.from_json_data(copy.deepcopy(arg_value))
    x = convert_into(arg_value, mod)
    if name == "to_code":
        return lambda: x.to_code()
    if name == "normalize":
        return lambda: x.normalize()
    if name == "to_json_data":
        return lambda: x.to_json_data()
    raise ValueError(name)


def pristine_call(name, arg_value):
    """The same API call evaluated by a pristine copy of the library on an equal argument."""
    mname, mod = fresh_library_copy()
    try:
        return sched._outcome(thunk_for(mod, name, arg_value))
    finally:
        drop_library_copy(mname)


def api_call(name, arg):
    import code_data

    CD = code_data.CodeData
    if name == "from_code":
        return CD.from_code(arg)
    if name == "to_code":
        return arg.to_code()
    if name == "normalize":
        return arg.normalize()
    if name == "to_json_data":
        return arg.to_json_data()
    if name == "from_json_data":
        return CD.from_json_data(arg)
    raise ValueError(name)


def ambient_snapshot():
    """Process-global interpreter settings a pure API call has no business changing (P6)."""
    import gc
    import signal
    import warnings

    out = [("recursionlimit", sys.getrecursionlimit()), ("switchinterval", sys.getswitchinterval()),
           ("gc", gc.isenabled(), gc.get_threshold()), ("cwd", os.getcwd()),
           ("environ", hashlib.sha256(repr(sorted(os.environ.items())).encode("utf-8", "backslashreplace")).hexdigest()[:12]),
           ("trace", sys.gettrace() is None), ("profile", sys.getprofile() is None),
           ("stdio", id(sys.stdout), id(sys.stderr), id(sys.stdin)), ("warnings.filters", len(warnings.filters)),
           ("sigint", repr(signal.getsignal(signal.SIGINT))[:60]), ("sys.path", len(sys.path)),
           ("dont_write_bytecode", sys.dont_write_bytecode)]
    if hasattr(sys, "get_int_max_str_digits"):
        out.append(("int_max_str_digits", sys.get_int_max_str_digits()))
    return out


def canon_outcome(name, out):
    if out[0] != "ok":
        return ("raise", out[1])
    kind = KIND_OF_RESULT[name]
    if kind == "doc":
        return ("ok", fp.doc_fp(out[1], True))
    return ("ok", snap(kind, out[1]))


def doc_probe(v, probes):
    """Reach probes on a document: what interesting structure does it contain?"""
    stack = [v]
    seen = 0
    while stack:
        x = stack.pop()
        seen += 1
        if isinstance(x, dict):
            if "frozenset" in x:
                probes["doc_has_frozenset"] = 1
            if x.get("float") == "nan":
                probes["doc_has_nan"] = 1
            if "args" in x and isinstance(x.get("args"), dict) and x["args"]:
                probes["doc_has_fn_args"] = 1
            if "filename" in x and "constant" not in x and seen > 1:
                probes["doc_has_nested_code"] = 1
            if "string" in x and len(x) == 1:
                probes["doc_has_surrogate_string"] = 1
            stack.extend(x.values())
        elif isinstance(x, list):
            stack.extend(x)


class World(object):
    """Pool + shadow model + event log.  Subclasses add property-specific invariants."""

    PROP = "C12"

    def __init__(self, tree, known=None, tier="quick"):
        self.tree = tree
        self.tier = tier
        self.known = set(known or [])
        self.slots = {}
        self.ops = []  # recorded literal ops
        self.log = hashlib.sha256()
        self.first_result = {}  # (op, input ids) -> outcome fingerprint
        self.violations = []
        self.counters = {}
        self.probes = {}
        self.next_id = 0
        self.stop = False
        self.api_ops = 0
        self.faults_fired = 0
        self.sig = []  # op kind sequence (history signature)
        self.switch_digest = hashlib.sha256()
        self.n_switches = 0
        self.alias_links = []  # (alias id, original id): survives eviction of either end

    # -- bookkeeping --------------------------------------------------------------
    def count(self, key, n=1):
        self.counters[key] = self.counters.get(key, 0) + n

    def event(self, *parts):
        if TRACE_EVENTS:
            sys.stdout.write("EV " + repr(parts)[:300] + "\n")
        self.log.update(repr(parts).encode("ascii", "backslashreplace"))
        self.log.update(b"\n")

    def digest(self):
        return self.log.hexdigest()[:16]

    def violate(self, invariant, op_name, location, detail, mode=None):
        location = norm_loc(location)
        fpr = "%s/%s/%s/%s" % (self.PROP, invariant, op_name, location)
        if mode:
            fpr += "/mode=" + mode
        v = {"property": self.PROP, "invariant": invariant, "op": op_name, "location": location,
             "fingerprint": fpr, "detail": detail, "at_op": len(self.ops)}
        self.violations.append(v)
        self.event("VIOLATION", fpr)
        if fpr not in self.known:
            self.stop = True
        return v

    def live(self, kind=None, usable=True):
        out = []
        for i in sorted(self.slots):
            s = self.slots[i]
            if kind is not None and s.kind != kind:
                continue
            if usable and s.tainted:
                continue
            out.append(s)
        return out

    def add_slot(self, op, kind, value, lineage=None, route=None, snapshot=None, parent=None):
        s = Slot(op["id"], kind, value, lineage, route or [], snapshot)
        if parent is not None:
            s.meta["w"] = parent.meta.get("w", 0)
        self.slots[s.id] = s
        return s

    # -- invariant P1: nothing the harness did not touch may change ----------------
    def check_unchanged(self, slot_ids, op_name, mode=None):
        for i in slot_ids:
            s = self.slots.get(i)
            if s is None or s.kind in ("code", "text"):
                continue  # CPython code objects and str are immutable: nothing to re-read
            now = snap(s.kind, s.value)
            if now != s.snap:
                loc = fp.diff_path(s.snap, now) or "?"
                self.violate("P1-arg-mutated" if i in self._cur_inputs else "P1-bystander-mutated", op_name,
                             "%s:%s" % (s.kind, loc), {"slot": i, "kind": s.kind}, mode)
                s.snap = now
                s.tainted = True

    def check_all_unchanged(self, op_name, mode=None):
        self.check_unchanged(sorted(self.slots), op_name, mode)

    # -- the executor -------------------------------------------------------------
    def execute(self, op, rng=None):
        """Run one op (literal dict).  Fills in seeded decisions when rng is given."""
        op = dict(op)
        if "id" not in op:
            op["id"] = self.next_id
        self.next_id = max(self.next_id, op["id"]) + 1
        ins = op.get("in", [])
        self._cur_inputs = set(ins)
        for i in ins:
            if i not in self.slots:
                op["skipped"] = True
                self.ops.append(op)
                self.event("skip", op["op"], op["id"])
                return None
        name = op["op"]
        self.sig.append(name)
        handler = getattr(self, "op_" + name, None)
        if handler is None:
            if name in API_INPUT_KIND:
                res = self.op_api(op, rng)
            else:
                raise ValueError("unknown op %r" % name)
        elif name in ("preempt", "abort", "abort_sweep", "virgin"):
            # P6 also across interrupted / interleaved calls: whatever the callers did to interpreter-global
            # settings must be undone by the time all of them have returned
            before = ambient_snapshot()
            res = handler(op, rng)
            after = ambient_snapshot()
            if before != after and not self.stop:
                changed = [a[0] for a, b in zip(before, after) if a != b]
                self.violate("P6-ambient-interpreter-state-changed", name, ",".join(changed),
                             {"before": [a for a, b in zip(before, after) if a != b], "after": [b for a, b in zip(before, after) if a != b]},
                             "preempt" if name in ("preempt", "virgin") else "abort")
        else:
            res = handler(op, rng)
        self.ops.append(op)
        return res

    # generic producer ops -----------------------------------------------------------
    def op_compile(self, op, rng):
        src = workload.program_source(op["prog"], self.tree)
        code = workload.try_compile(src, op.get("filename", "<sim>"), op.get("mode", "exec"), op.get("optimize", 0))
        if code is None:
            self.event("compile-fail", op["id"])
            self.count("compile_fail")
            return None
        s = self.add_slot(op, "code", code, lineage=op["id"], route=["compile"])
        cos = workload.all_code_objects(code)
        s.meta["n_code_objects"] = len(cos)
        s.meta["w"] = sum(len(c.co_code) for c in cos) // 2
        self.event("compile", op["id"], fp.digest(s.snap))
        return s

    def op_nested(self, op, rng):
        parent = self.slots[op["in"][0]]
        cos = workload.all_code_objects(parent.value)
        idx = op["index"] % len(cos)
        s = self.add_slot(op, "code", cos[idx], lineage=op["id"], route=parent.route + ["nested"])
        s.meta["w"] = sum(len(c.co_code) for c in workload.all_code_objects(cos[idx])) // 2
        self.event("nested", op["id"], idx, fp.digest(s.snap))
        return s

    def op_graft(self, op, rng):
        """Hand-alter a code object: append zoo constants to co_consts (unreferenced, so they
        decode as additional arguments) and/or swap the value of an existing non-code constant."""
        parent = self.slots[op["in"][0]]
        c = parent.value
        consts = list(c.co_consts)
        try:
            extra = [eval(compile(e, "<zoo>", "eval"), {"__builtins__": {}, "frozenset": frozenset}) for e in op.get("append", [])]
            for idx, e in op.get("swap", []):
                idx = idx % max(1, len(consts))
                if consts and not isinstance(consts[idx], types.CodeType) and not (idx == 0 and (c.co_flags & 0x3) == 0x3):
                    consts[idx] = eval(compile(e, "<zoo>", "eval"), {"__builtins__": {}, "frozenset": frozenset})
        except (SyntaxError, ValueError, OverflowError, MemoryError):
            self.event("graft-fail", op["id"])
            return None
        if (c.co_flags & 0x3) == 0x3 and not consts and extra and isinstance(extra[0], str):
            extra = [None] + extra  # never turn a grafted str into a docstring
        kw = {"co_consts": tuple(consts + extra)}
        if op.get("junk_tail") is not None:
            # an opcode this interpreter does not define, after the last instruction (never executed)
            import dis

            undefined = [i for i in range(1, 256) if dis.opname[i].startswith("<")]
            kw["co_code"] = c.co_code + bytes([undefined[op["junk_tail"] % len(undefined)], 0])
            self.count("graft_undefined_opcode")
        try:
            new = replace_code(c, **kw)
        except (ValueError, TypeError):
            return None
        s = self.add_slot(op, "code", new, lineage=op["id"], route=parent.route + ["graft"], parent=parent)
        self.count("graft")
        self.event("graft", op["id"], fp.digest(s.snap))
        return s

    def op_dumps(self, op, rng):
        s = self.slots[op["in"][0]]
        o = op.get("opts", {})
        kw = {"ensure_ascii": o.get("ensure_ascii", True), "sort_keys": o.get("sort_keys", False), "allow_nan": False}
        if o.get("indent"):
            kw["indent"] = 2
        if o.get("compact"):
            kw["separators"] = (",", ":")
        try:
            text = json.dumps(s.value, **kw)
        except (ValueError, TypeError, RecursionError) as e:
            self.event("dumps-raise", op["id"], type(e).__name__)
            self.count("dumps_raise")
            return None
        r = self.add_slot(op, "text", text, s.lineage, s.route + ["dumps"], parent=s)
        r.normalized = s.normalized
        r.decoded = s.decoded
        self.event("dumps", op["id"], len(text))
        return r

    def op_loads(self, op, rng):
        s = self.slots[op["in"][0]]
        try:
            doc = json.loads(s.value)
        except (ValueError, RecursionError) as e:
            self.event("loads-raise", op["id"], type(e).__name__)
            return None
        r = self.add_slot(op, "doc", doc, s.lineage, s.route + ["loads"], parent=s)
        r.normalized = s.normalized
        r.decoded = s.decoded
        self.event("loads", op["id"], fp.digest(fp.doc_fp(doc, True)))
        return r

    def op_deepcopy(self, op, rng):
        s = self.slots[op["in"][0]]
        r = self.add_slot(op, "doc", copy.deepcopy(s.value), s.lineage, s.route + ["deepcopy"], parent=s)
        r.normalized = s.normalized
        r.decoded = s.decoded
        self.event("deepcopy", op["id"])
        return r

    def op_respell(self, op, rng):
        """A FOREIGN but equivalent document: every {"string": <python literal>} entry is spelled differently (all
        characters escaped / the running interpreter's repr / double quotes) - the reader evaluates the literal,
        so the new document denotes the same data.  It becomes an ordinary pool member: loading it must give
        equal data and may not change what any later call on OTHER objects returns (P2)."""
        import ast

        s = self.slots[op["in"][0]]
        doc = copy.deepcopy(s.value)
        n = [0]
        style = op.get("style", "escape")

        def alt_of(lit):
            try:
                v = ast.literal_eval(lit)
            except Exception:
                return None
            if not isinstance(v, str):
                return None
            cands = []
            esc = "".join("\\u%04x" % ord(ch) if ord(ch) < 0x10000 else "\\U%08x" % ord(ch) for ch in v)
            if style == "repr":
                cands.append(repr(v))
            elif style == "double":
                body = ascii(v)[1:-1] if ascii(v)[0] == "'" else None
                if body is not None and '"' not in body:
                    cands.append('"' + body.replace("\\'", "'") + '"')
            cands.append("'" + esc + "'")
            for c in cands:
                try:
                    if c != lit and ast.literal_eval(c) == v and [ord(x) for x in ast.literal_eval(c)] == [ord(x) for x in v]:
                        return c
                except Exception:
                    continue
            return None

        def walk(v):
            if isinstance(v, dict):
                if len(v) == 1 and isinstance(v.get("string"), str):
                    a = alt_of(v["string"])
                    if a is not None:
                        v["string"] = a
                        n[0] += 1
                    return
                for x in v.values():
                    walk(x)
            elif isinstance(v, list):
                for x in v:
                    walk(x)

        walk(doc)
        if not n[0]:
            self.count("respell_noop")
            self.event("respell-noop", op["id"])
            return None
        r = self.add_slot(op, "doc", doc, s.lineage, s.route + ["respell"], parent=s)
        r.normalized = s.normalized
        r.decoded = s.decoded
        self.count("fault_foreign_spelling_of_string_entries")
        self.count("respelled_string_entries", n[0])
        self.faults_fired += 1
        self.event("respell", op["id"], n[0], style)
        return r

    def op_alias(self, op, rng):
        """F2: a second document sharing every nested container with the first."""
        s = self.slots[op["in"][0]]
        if not isinstance(s.value, dict):
            return None
        r = self.add_slot(op, "doc", dict(s.value), s.lineage, s.route + ["alias"], parent=s)
        r.normalized = s.normalized
        r.decoded = s.decoded
        r.meta["alias_of"] = s.id
        self.alias_links.append((r.id, s.id))
        self.count("fault_alias")
        self.faults_fired += 1
        self.event("alias", op["id"], s.id)
        return r

    def op_edit_posonly(self, op, rng):
        """Hand-edited data (dataclasses.replace): the first plain positional parameter becomes positional-only.
        A new data value like any other; on 3.7 every to_code() of it must behave the same (raise)."""
        s = self.slots[op["in"][0]]
        d = s.value
        if s.kind != "data" or d.type is None or not d.type.args.positional_or_keyword:
            op["skipped"] = True
            return None
        a = d.type.args
        a2 = dataclasses.replace(a, positional_only=a.positional_only + a.positional_or_keyword[:1], positional_or_keyword=a.positional_or_keyword[1:])
        new = dataclasses.replace(d, type=dataclasses.replace(d.type, args=a2))
        r = self.add_slot(op, "data", new, s.lineage, s.route + ["edit_posonly"], parent=s)
        r.normalized = s.normalized
        self.count("hand_edit_positional_only")
        self.event("edit_posonly", op["id"])
        return r

    def op_ambient(self, op, rng):
        """Swarm knob: the application's own interpreter settings (recorded, so replay sets them too)."""
        if "int_max_str_digits" in op and hasattr(sys, "set_int_max_str_digits"):
            if not hasattr(self, "_ambient_saved"):
                self._ambient_saved = sys.get_int_max_str_digits()
            sys.set_int_max_str_digits(op["int_max_str_digits"])
            self.count("ambient_int_max_str_digits_%d" % op["int_max_str_digits"])
        self.event("ambient", sorted(op.items()))
        return None

    def restore_ambient(self):
        if hasattr(self, "_ambient_saved"):
            sys.set_int_max_str_digits(self._ambient_saved)
            del self._ambient_saved

    def op_evict(self, op, rng):
        i = op["in"][0]
        self.slots.pop(i, None)
        self.event("evict", i)
        return None

    # the API call op ------------------------------------------------------------------
    def outcome_fp(self, name, out):
        """Exact outcome fingerprint (P2 compares these within one process)."""
        if out[0] == "ok":
            self._last_snap = snap(KIND_OF_RESULT[name], out[1])
            return ("ok", fp.digest(self._last_snap))
        self._last_snap = None
        return ("raise", out[1])

    def outcome_log(self, name, out, ofp=None):
        """What goes into the run digest: canonical (frozenset listing order ignored), because
        that order depends on id-based hashes (None, Ellipsis) which no seed controls."""
        if out[0] == "ok":
            if KIND_OF_RESULT[name] == "doc":
                return ("ok", fp.digest(fp.doc_fp(out[1], True)))
            if ofp is not None:
                return ofp
            return ("ok", fp.digest(snap(KIND_OF_RESULT[name], out[1])))
        return ("raise", out[1])

    def op_api(self, op, rng, mode=None, outcome=None):
        name = op["op"]
        arg = self.slots[op["in"][0]]
        if arg.kind != API_INPUT_KIND[name]:
            op["skipped"] = True
            return None
        if outcome is None:
            before = ambient_snapshot()
            outcome = sched.guarded(lambda: api_call(name, arg.value))
            after = ambient_snapshot()
            if before != after:
                changed = [a[0] for a, b in zip(before, after) if a != b]
                self.violate("P6-ambient-interpreter-state-changed", name, ",".join(changed), {"before": [a for a, b in zip(before, after) if a != b], "after": [b for a, b in zip(before, after) if a != b]}, mode)
                if self.stop:
                    return None
        self.api_ops += 1
        arg.uses += 1
        if arg.uses > 1:
            self.count("reuse_of_argument")
            if name == "from_json_data":
                self.probes["from_json_data_on_used_doc"] = self.probes.get("from_json_data_on_used_doc", 0) + 1
        ofp = self.outcome_fp(name, outcome)
        self._result_snap = self._last_snap
        self.event("api", name, tuple(op["in"]), self.outcome_log(name, outcome, ofp))
        self.count("api_" + name)
        res = self.after_api(op, name, arg, outcome, ofp, mode)
        return res

    def after_api(self, op, name, arg, outcome, ofp, mode):
        # P1: the argument (and, periodically, every bystander) is unchanged
        self.check_unchanged([arg.id], name, mode)
        if self.stop:
            return None
        if len(self.ops) % 5 == 0:
            self.check_all_unchanged(name, mode)
            if self.stop:
                return None
        # P2: same call on the same argument object -> same result
        key = (name, tuple(op["in"]))
        first = self.first_result.get(key)
        if first is None:
            self.first_result[key] = ofp
        else:
            self.count("repeat_checked")
            if first != ofp:
                loc = "%s->%s" % (first[0] if first[0] == "ok" else "raise:" + first[1], ofp[0] if ofp[0] == "ok" else "raise:" + ofp[1])
                self.violate("P2-not-repeatable", name, loc, {"first": first, "now": ofp, "in": op["in"]}, mode)
                if self.stop:
                    return None
        # P5: the result equals what a pristine copy of the library (no history at all) gives for an equal argument
        if op.get("ref") and mode is None:
            ref = pristine_call(name, arg.value)
            self.count("pristine_reference_checked")
            self.faults_fired += 0
            a = canon_outcome(name, outcome)
            b = canon_outcome(name, ref)
            self.event("pristine", name, a == b)
            if a != b:
                if a[0] == "ok" and b[0] == "ok":
                    loc = fp.diff_path(b[1], a[1]) or "?"
                else:
                    loc = "%s->%s" % (b[0] if b[0] == "ok" else "raise:" + b[1], a[0] if a[0] == "ok" else "raise:" + a[1])
                self.violate("P5-differs-from-pristine-library", name, loc, {"in": op["in"], "route": arg.route})
                if self.stop:
                    return None
        if outcome[0] != "ok":
            self.count("api_raise_" + name)
            return None
        value = outcome[1]
        kind = KIND_OF_RESULT[name]
        r = self.add_slot(op, kind, value, arg.lineage, arg.route + [name], snapshot=self._result_snap, parent=arg)
        r.made_by_lib = True
        r.normalized = (name == "normalize") or (arg.normalized and name in ("to_json_data", "from_json_data"))
        r.decoded = (name == "from_code") or (arg.decoded and name in ("to_json_data", "from_json_data"))
        if name == "to_json_data":
            r.src_data = arg.id
            doc_probe(value, self.probes)
        # P3: no mutable state shared between a result and anything else that is live
        # (not for a document the harness scribbled on: garbage in, garbage out is not a purity violation)
        if not op.get("malformed"):
            self.check_sharing(r, arg, name, mode)
        return r

    def check_sharing(self, r, arg, name, mode):
        if r.kind == "doc":
            mine = fp.container_ids(r.value)
            for s in self.live("doc", usable=False):
                if s.id == r.id:
                    continue
                other = fp.container_ids(s.value)
                common = set(mine) & set(other)
                if common:
                    self.violate("P3-result-shares-container", name, "doc~doc", {"with": s.id, "n": len(common)}, mode)
                    return
            self.count("sharing_checked")
        elif r.kind == "data":
            muts = mutable_ids_in_data(r.value)
            if muts:
                kinds = sorted(set(type(v).__name__ for v in muts.values()))
                self.violate("P3-mutable-inside-data", name, ",".join(kinds), {"n": len(muts)}, mode)
                return
            if arg.kind == "doc":
                self.count("sharing_checked")

    def alias_group(self, sid):
        """Slot ids connected to sid through harness-made aliasing (alias ops)."""
        group = set([sid])
        changed = True
        while changed:
            changed = False
            for a, b in self.alias_links:
                if (a in group) != (b in group):
                    group.add(a)
                    group.add(b)
                    changed = True
        return group

    # fault ops ------------------------------------------------------------------------
    def op_scribble(self, op, rng):
        """F1 hostile caller: mutate a document the library returned (or any doc)."""
        s = self.slots[op["in"][0]]
        conts = list(fp.container_ids(s.value).values())
        if not conts:
            return None
        wipe = op.get("wipe", False)
        if op.get("dropkey") is not None:
            # delete one OPTIONAL-looking key somewhere (the document stays nearly valid: the library gets as far
            # as the place that misses it)
            names = ("line", "additional_offsets", "args", "docstring", "type", "relative", "_index_override", "line_number", "arg", "freevars")
            hits = [c for c in conts if isinstance(c, dict) and any(k in c for k in names)]
            small = [c for c in hits if set(c.keys()) <= set(("line", "additional_offsets"))]
            if small and op["dropkey"] % 2 == 0:
                hits = small  # the trailing-line object: few keys, each optional in the schema
            if hits:
                c = hits[op["dropkey"] % len(hits)]
                ks = [k for k in names if k in c]
                del c[ks[(op["dropkey"] // 7) % len(ks)]]
                self.count("fault_scribble_dropkey")
            op = dict(op, edits=[])
        # documents the HARNESS made share containers with this one (alias op) change with it
        group = self.alias_group(s.id)
        if wipe:
            for c in conts:
                c.clear()
            self.count("fault_wipe")
        else:
            for (ci, action, ki) in op["edits"]:
                c = conts[ci % len(conts)]
                scribble_one(c, action, ki)
            self.count("fault_scribble")
        self.faults_fired += 1
        for gid in group:
            g = self.slots.get(gid)
            if g is not None:
                g.tainted = True
                g.snap = snap(g.kind, g.value)
        # the caller changed these documents: earlier results on them are no longer the reference
        for key in [k for k in self.first_result if any(i in group for i in k[1])]:
            del self.first_result[key]
        self.event("scribble", s.id, wipe)
        # everything else must be unaffected (P3: no shared mutable state)
        self._cur_inputs = set()
        before = len(self.violations)
        self.check_all_unchanged("scribble")
        if len(self.violations) > before:
            # re-label: a bystander changed because the caller scribbled on its own document
            for v in self.violations[before:]:
                v["invariant"] = "P3-shares-state-with-scribbled-doc"
                v["fingerprint"] = v["fingerprint"].replace("P1-bystander-mutated", "P3-shares-state-with-scribbled-doc")
            self.stop = any(v["fingerprint"] not in self.known for v in self.violations[before:]) or self.stop
        if self.stop:
            return None
        # a later to_json_data of the source data is unaffected
        if s.src_data is not None and s.src_data in self.slots:
            d = self.slots[s.src_data]
            out = sched._outcome(lambda: api_call("to_json_data", d.value))
            self.api_ops += 1
            ofp = self.outcome_fp("to_json_data", out)
            first = self.first_result.get(("to_json_data", (d.id,)))
            self.event("rescribble-check", d.id, self.outcome_log("to_json_data", out))
            self.count("later_to_json_checked")
            if first is not None and first != ofp:
                self.violate("P3-later-to_json_data-affected", "to_json_data", "after-scribble", {"first": first, "now": ofp})
        return None

    def op_observe(self, op, rng):
        """Read-only observers that must not change anything."""
        s = self.slots[op["in"][0]]
        what = op["what"]
        v = s.value
        try:
            if what == "repr":
                repr(v)
            elif what == "hash":
                hash(v)
            elif what == "iter":
                list(iter(v))
            elif what == "all":
                list(v.all_code_data())
            elif what == "eq":
                v == v
                if len(op["in"]) > 1:
                    v == self.slots[op["in"][1]].value
            elif what == "params":
                if v.type is not None:
                    v.type.args.parameters
                    len(v.type.args)
            elif what == "pickle":
                pickle.dumps(v)
        except Exception as e:
            self.event("observe-raise", what, type(e).__name__)
            self.count("observe_raise_" + what)
        self.count("observe")
        self.event("observe", what, tuple(op["in"]))
        self.check_unchanged(op["in"], "observe-" + what)
        return None

    def op_from_json_data(self, op, rng):
        if op.get("malformed"):
            arg = self.slots[op["in"][0]]
            if arg.kind != "doc":
                op["skipped"] = True
                return None
            was = arg.tainted
            arg.tainted = False  # let the generic path run; the slot stays marked below
            try:
                r = self.op_api(op, rng)
            finally:
                arg.tainted = was
            if r is not None:
                r.tainted = True
            return r
        return self.op_api(op, rng)

    def _call_spec(self, spec):
        name = spec["op"]
        arg = self.slots.get(spec["in"][0])
        if arg is None or arg.kind != API_INPUT_KIND[name] or arg.tainted:
            return None
        return name, arg

    def ensure_shadow(self, spec):
        """Sequential reference result for (op, arg) -- computed before any fault run."""
        name, arg = spec["op"], self.slots[spec["in"][0]]
        key = (name, tuple(spec["in"]))
        if key not in self.first_result:
            sub = {"op": name, "in": list(spec["in"]), "id": self.next_id, "shadow": True}
            self.next_id += 1
            # run as an ordinary sequential op, with all its invariants
            self.sig.append(name)
            self.op_api(sub, None)
            self.ops.append(sub)
        return key

    def op_abort(self, op, rng):
        """F3: abort one API call at an arbitrary instant, then check arguments and re-issue."""
        spec = op["call"]
        cs = self._call_spec(spec)
        if cs is None:
            op["skipped"] = True
            return None
        name, arg = cs
        key = self.ensure_shadow(spec)
        if self.stop:
            return None
        thunk = lambda: api_call(name, arg.value)  # noqa: E731
        kind = op.get("exc")
        if kind == "RecursionError":
            out = sched.run_with_recursion_limit(thunk, op.get("headroom", 8))
            fired = out[0] == "raise" and out[1] == "RecursionError"
            where = None
        else:
            if "k" not in op:
                n, _ = sched.count_lines(thunk)
                op["n_lines"] = n
                op["k"] = rng.randint(1, max(1, n))
            fired, where, out = sched.run_with_abort(thunk, op["k"], kind)
        self.event("abort", name, tuple(spec["in"]), kind, op.get("k"), fired, out[0] if out[0] == "ok" else out[1])
        if not fired:
            self.count("abort_not_fired")
            return None
        self.faults_fired += 1
        self.count("fault_abort")
        self.count("fault_abort_" + str(kind))
        self.count("fault_abort_in_" + name)
        if where:
            self.probes["abort_in_fn:" + where[0]] = self.probes.get("abort_in_fn:" + where[0], 0) + 1
        if out[0] == "ok":
            self.count("abort_swallowed_inconclusive")
        # arguments and every bystander unchanged
        self._cur_inputs = set(spec["in"])
        self.check_all_unchanged(name, "abort")
        if self.stop:
            return None
        # the same call, un-aborted, still gives the shadow result
        out2 = sched._outcome(thunk)
        self.api_ops += 1
        ofp = self.outcome_fp(name, out2)
        self.event("abort-reissue", name, self.outcome_log(name, out2, ofp))
        if self.first_result[key] != ofp:
            f = self.first_result[key]
            loc = "%s->%s" % (f[0] if f[0] == "ok" else "raise:" + f[1], ofp[0] if ofp[0] == "ok" else "raise:" + ofp[1])
            self.violate("P4-after-abort-differs", name, loc, {"first": f, "now": ofp, "where": where}, "abort")
        self.check_unchanged(spec["in"], name, "abort")
        return None

    def op_abort_sweep(self, op, rng):
        """F3 as crash-point enumeration: the same call aborted at EVERY k-th line event (stride 1 = every
        instant at line granularity), arguments re-read and the call re-issued after each abort."""
        spec = op["call"]
        cs = self._call_spec(spec)
        if cs is None:
            op["skipped"] = True
            return None
        name, arg = cs
        key = self.ensure_shadow(spec)
        if self.stop:
            return None
        thunk = lambda: api_call(name, arg.value)  # noqa: E731
        if "n_lines" not in op:
            n, _ = sched.count_lines(thunk)
            op["n_lines"] = n
        n = op["n_lines"]
        # the sweep re-runs the call once per point: bound the quadratic cost
        cap = op.get("max_points", 300)
        stride = max(1, op.get("stride", 1), (n + cap - 1) // cap)
        kind = op.get("exc", "SimAbort")
        fired_n = 0
        self._cur_inputs = set(spec["in"])
        for k in range(op.get("offset", 1), n + 1, stride):
            fired, where, out = sched.run_with_abort(thunk, k, kind)
            if not fired:
                continue
            fired_n += 1
            self.check_unchanged(spec["in"], name, "abort")
            if self.stop:
                return None
            out2 = sched._outcome(thunk)
            ofp = self.outcome_fp(name, out2)
            if self.first_result[key] != ofp:
                f = self.first_result[key]
                loc = "%s->%s" % (f[0] if f[0] == "ok" else "raise:" + f[1], ofp[0] if ofp[0] == "ok" else "raise:" + ofp[1])
                self.violate("P4-after-abort-differs", name, loc, {"first": f, "now": ofp, "where": where, "k": k}, "abort")
                if self.stop:
                    return None
        self.api_ops += fired_n
        self.event("abort-sweep", name, tuple(spec["in"]), kind, n, stride, fired_n)
        self.count("fault_abort_sweep")
        self.count("fault_abort", fired_n)
        self.count("abort_sweep_points", fired_n)
        if stride == 1:
            self.count("abort_sweep_exhaustive_calls")
        self.faults_fired += 1
        self.check_all_unchanged(name, "abort")
        return None

    def op_virgin(self, op, rng):
        """F3/F4 on FIRST USE: the call is made against a virgin copy of the library (every module imported,
        nothing ever called, so lazily built tables do not exist yet) and is aborted at a seeded line - or run
        by two pre-empted callers at once; the same copy is then used again and must give the result the
        long-lived library gives.  A table published before it is filled poisons the copy for good."""
        spec = op["call"]
        cs = self._call_spec(spec)
        if cs is None:
            op["skipped"] = True
            return None
        name, arg = cs
        self.ensure_shadow(spec)
        if self.stop:
            return None
        ref = canon_outcome(name, sched._outcome(lambda: api_call(name, arg.value)))
        if op["how"] == "abort" and "ks" not in op:
            mname, mod = fresh_library_copy(True)
            try:
                n, _ = sched.count_lines(thunk_for(mod, name, arg.value), skip_module_frames=True)
            finally:
                drop_library_copy(mname)
            op["n_lines"] = n
            # first use is where lazy initialisation happens: bias to the early lines
            op["ks"] = sorted(set([rng.randint(1, max(1, min(n, 60))) for _ in range(op.get("trials", 4))] + [rng.randint(1, max(1, n))]))
        trials = op["ks"] if op["how"] == "abort" else [None]
        for k in trials:
            mname, mod = fresh_library_copy(True)
            try:
                th = thunk_for(mod, name, arg.value)
                if op["how"] == "abort":
                    fired, where, out = sched.run_with_abort(th, k, op.get("exc", "KeyboardInterrupt"), skip_module_frames=True)
                    if not fired:
                        continue
                    self.count("fault_virgin_abort")
                    outs = []
                else:
                    th2 = thunk_for(mod, name, arg.value)
                    pre = sched.Preempter([th, th2], rng=rng, p=op.get("p", 0.1), schedule=op.get("switches"), first=op.get("first", 0))
                    outs = pre.run()
                    if "switches" not in op:
                        op["switches"] = pre.switches
                    self.count("fault_virgin_preempt")
                    self.count("preempt_switches", len(pre.switches))
                    where = None
                self.faults_fired += 1
                outs.append(sched._outcome(th))  # the copy is used again after the fault
                for o in outs:
                    got = canon_outcome(name, o)
                    if got != ref:
                        if got[0] == "ok" and ref[0] == "ok":
                            loc = fp.diff_path(ref[1], got[1]) or "?"
                        else:
                            loc = "%s->%s" % (ref[0] if ref[0] == "ok" else "raise:" + ref[1], got[0] if got[0] == "ok" else "raise:" + got[1])
                        self.violate("P7-first-use-fault-poisons-library", name, loc, {"how": op["how"], "k": k, "where": where}, op["how"] if op["how"] == "abort" else "preempt")
                        return None
            finally:
                drop_library_copy(mname)
        self.event("virgin", op["how"], name, tuple(spec["in"]), len(trials))
        self.api_ops += len(trials)
        return None

    def op_preempt(self, op, rng):
        """F4: 2-3 callers interleaved at line granularity under a seeded schedule."""
        specs = op["calls"]
        ready = []
        for spec in specs:
            cs = self._call_spec(spec)
            if cs is None:
                op["skipped"] = True
                return None
            ready.append(cs)
        keys = []
        for spec in specs:
            keys.append(self.ensure_shadow(spec))
            if self.stop:
                return None
            if self._call_spec(spec) is None:  # became tainted by a (known) violation
                op["skipped"] = True
                return None
        thunks = []
        for (name, arg) in ready:
            thunks.append((lambda n, a: (lambda: api_call(n, a.value)))(name, arg))
        labels = ["%s:%s" % (spec["op"], spec["in"][0]) for spec in specs]
        pre = sched.Preempter(thunks, rng=rng, p=op.get("p", 0.05), schedule=op.get("switches"), first=op.get("first", 0), labels=labels)
        results = pre.run()
        if "switches" not in op:
            op["switches"] = pre.switches
        op["steps"] = pre.step
        self.n_switches += len(pre.switches)
        self.switch_digest.update(repr(pre.switches).encode())
        self.count("preempt_runs")
        self.count("preempt_switches", len(pre.switches))
        self.count("preempt_line_steps", pre.step)
        if pre.switches:
            self.faults_fired += 1
            self.count("fault_preempt")
        if pre.overlap_same_fn:
            self.probes["switch_while_both_in_same_function"] = self.probes.get("switch_while_both_in_same_function", 0) + pre.overlap_same_fn
        if pre.overlap_same_label:
            self.probes["switch_same_function_same_argument"] = self.probes.get("switch_same_function_same_argument", 0) + pre.overlap_same_label
        self._cur_inputs = set(i for spec in specs for i in spec["in"])
        for spec, key, out in zip(specs, keys, results):
            ofp = self.outcome_fp(spec["op"], out)
            self.api_ops += 1
            self.event("preempt-result", spec["op"], tuple(spec["in"]), self.outcome_log(spec["op"], out, ofp))
            if self.first_result[key] != ofp:
                f = self.first_result[key]
                loc = "%s->%s" % (f[0] if f[0] == "ok" else "raise:" + f[1], ofp[0] if ofp[0] == "ok" else "raise:" + ofp[1])
                self.violate("P4-interleaved-differs", spec["op"], loc, {"first": f, "now": ofp, "switches": len(pre.switches)}, "preempt")
                if self.stop:
                    return None
            elif out[0] == "ok":
                # the result object itself must not share state with arguments / other docs
                pass
        self.check_all_unchanged("preempt", "preempt")
        return None


def scribble_one(c, action, ki):
    if isinstance(c, dict):
        keys = list(c.keys())
        if action == "set" or not keys:
            c["zz_scribble"] = [ki]
        elif action == "del":
            del c[keys[ki % len(keys)]]
        elif action == "replace":
            c[keys[ki % len(keys)]] = "scribbled-%d" % ki
        else:
            c[keys[ki % len(keys)]] = None
    else:
        if action == "set" or not c:
            c.append({"zz": ki})
        elif action == "del":
            c.pop(ki % len(c))
        elif action == "replace":
            c[ki % len(c)] = "scribbled-%d" % ki
        else:
            c.reverse()


def replace_code(c, **kw):
    """code.replace for 3.8+, CodeType constructor for 3.7."""
    if hasattr(c, "replace"):
        return c.replace(**kw)
    g = lambda n: kw.get(n, getattr(c, n))  # noqa: E731
    return types.CodeType(
        g("co_argcount"), g("co_kwonlyargcount"), g("co_nlocals"), g("co_stacksize"), g("co_flags"),
        g("co_code"), g("co_consts"), g("co_names"), g("co_varnames"), g("co_filename"), g("co_name"),
        g("co_firstlineno"), g("co_lnotab"), g("co_freevars"), g("co_cellvars"),
    )
