#!/bin/sh
# Determinism sweep: every check twice, at two worker counts and under two ambient hash seeds;
# per-run digests must be identical.  Usage: tools/determinism_sweep.sh [props...]
cd "$(dirname "$0")/.."
props="${@:-C06 C07 C08 C11 C12 C15 C16}"
out=$(mktemp -d /tmp/verif-det-XXXXXX)
rc=0
for p in $props; do
  VERIF_BUDGET_S=${SWEEP_BUDGET_S:-25} VERIF_WORKERS=16 PYTHONHASHSEED=1 VERIF_DUMP_DIGESTS=$out/a ./check $p --tier quick >/dev/null 2>&1
  VERIF_BUDGET_S=${SWEEP_BUDGET_S:-25} VERIF_WORKERS=5 PYTHONHASHSEED=77 VERIF_DUMP_DIGESTS=$out/b ./check $p --tier quick >/dev/null 2>&1
  if cmp -s $out/a/$p.digests $out/b/$p.digests && [ -s $out/a/$p.digests ]; then
    echo "$p: $(wc -l < $out/a/$p.digests) runs, digests identical (16 workers/hashseed 1 vs 5 workers/hashseed 77)"
  else
    echo "$p: DIGESTS DIFFER"; diff $out/a/$p.digests $out/b/$p.digests | head -5; rc=1
  fi
done
git checkout -q -- evidence 2>/dev/null
rm -rf $out
exit $rc
