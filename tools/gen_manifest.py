#!/usr/bin/env python3
"""Writes /verif/MANIFEST.json from the table below (kept as code so it stays consistent)."""
import json
import os

VERIF = os.path.dirname(os.path.dirname(os.path.abspath(__file__)))

NA = {
    "C01": "pure function of one code object (lossless code->data->code): no schedule, clock, fault, peer or history in the statement; generating more programs would be input fuzzing in simulator vocabulary",
    "C02": "pure function of one code object (decoded view vs CPython's dis/line reading): the oracle is a second reader, not a history or a fault",
    "C03": "pure function of one hand-built CodeData (encoder correctness and termination of a deterministic loop on one input); its 'inconsistent overrides must raise' clause alone is not the property",
    "C04": "pure function of one code object (signature/docstring/kind vs inspect)",
    "C05": "pure function of one code object (normalized code is observationally equivalent; the executions compared are deterministic)",
    "C09": "pure function of one code object (no redundant override information)",
    "C10": "pure codec over abstract line programs; boundary enumeration is model checking / fuzzing territory, nothing for a scheduler or fault injector to own",
    "C13": "pure function of one code object (blocks are the jump-target partition)",
    "C14": "pure function of one code object (iteration enumerates nested code; the generators read only immutable data, so even interleaving two iterations cannot matter)",
}

PENDING = {}

CHECKS = {
    "C15": {
        "engine": "B-exchange-simulation",
        "category": "exploration",
        "design_ref": "DESIGN.md sections 5.1, 5.2",
        "technique": "deterministic simulation of a multi-node exchange: producers on CPython 3.7-3.10 and consumers on 3.7-3.13 as real processes under a hub that decides every delivery, order, duplication, transcoding, key/frozenset shuffle and node restart (new hash seed) from one seed; canonical-form monitors at every hop",
        "text": "Seeded search over producer->consumer routes (1-3 hops) across seven interpreter versions with seeded hash seeds and transport faults that preserve meaning (duplicate, reorder, transcode via json/orjson, shuffle key order and frozenset listings, restart the consumer). At every hop the canonical re-serialization must equal the producer's document, the canonical normalized form must be the same on every host, duplicate and post-restart deliveries must answer identically, a long-lived consumer that handles several different documents in a row (35 % of runs) must answer as a fresh one, and hosts that cannot build code objects (3.11+) must still load, normalize and dump. The full producer x consumer version matrix is filled in every quick run; sampling of documents and routes, not proof.",
        "note": "Nodes are separate OS processes (different CPython versions cannot share an address space); the hub has one request outstanding per run, so runs are sequential and replay from their explicit plan. Loss/truncation/corruption of JSON text is not injected: the property promises nothing about broken documents.",
    },
    "C16": {
        "engine": "B-exchange-simulation",
        "category": "exploration",
        "design_ref": "DESIGN.md section 5.4",
        "technique": "deterministic simulation of the CLI as a process node: real `python -c 'from code_data._cli import main; main()'` processes with seeded interpreter, hash seed, source kind and option subsets, invalid source combinations, and warm re-invocation in one process; stdout compared section by section with an API oracle node of the same version (addresses scrubbed, frozenset listing order canonicalised)",
        "text": "Seeded search over CLI invocations on CPython 3.7-3.10: source kind {file, -c, -e, -m} x subsets of {--dis, --dis-after, --source, --no-normalize, --json} x valid / invalid source combinations (incl. the empty -c/-e source) x hash seeds; the oracle node renders what the API returns for the same program and the hub compares exit status and every stdout section; the printed JSON is loaded back through from_json_data; --dis-after is compared with the disassembly of the oracle's to_code() and, symbolically, with the original; N warm invocations of main() in one process must print what fresh processes print; the same path rewritten with another program of the same size and (harness-set) modification time must be read afresh.",
        "note": "stdio pinned to UTF-8; rich is absent on 3.7-3.10, so the CLI's own plain-print fallback runs (as the property's observe_at says). I/O faults (closed stdout, unreadable file) are not injected: the property states no behaviour for them.",
    },
    "C06": {
        "engine": "A-history-machine",
        "category": "exploration",
        "design_ref": "DESIGN.md sections 4.3 (F5), 4.6",
        "technique": "deterministic simulation: seeded histories of code/JSON round trips and normalize over one program lineage, with serialization-artefact faults injected into the code object in transit (table permutations with operand renumbering, unreferenced entries, redundant EXTENDED_ARG, CO_NESTED, junk operand bytes; each gated by CPython's own dis/line reading) and benign transit shuffles of JSON text",
        "text": "Seeded search over operation histories {normalize, code round trip, JSON round trip} of bounded length on real CPython 3.7-3.10, with artefact perturbations of the code object in transit and of the original; invariant after every step: the normalized state equals the lineage's first normal form (library ==); sampled normal forms are also compared with the one a pristine second copy of the library computes (a canonical form cannot depend on what else the process normalized before; decoy lineages holding confusable look-alike constants are interleaved to prime any cache; calls aborted at a seeded line and refused foreign documents are interleaved as failed calls the caller survives). Sampling of histories and perturbations, not proof.",
        "note": "Trusted: CPython's dis / co_lines / findlinestarts as the gate that a perturbed object is the same program; the harness's own bytecode reader/writer (sim/bytecode.py). A perturbed object that from_code refuses is counted inconclusive (C11 allows raising).",
    },
    "C07": {
        "engine": "B-exchange-simulation",
        "category": "exploration",
        "design_ref": "DESIGN.md sections 5.1, 5.3",
        "technique": "deterministic simulation of a document exchange: a hub-owned transport between real interpreter processes (seeded hash seeds) that transcodes (json options, orjson), shuffles, duplicates, reorders and restarts; monitors on every message in flight (strict JSON, two independent schema validators) and reload on the producer and on a fresh same-version node with strict fingerprints",
        "text": "Seeded search over exchange runs: every document entering the hub's transport (raw and normalized, from producers on CPython 3.7-3.10) is checked as it travels for strictness (types, keys, finite floats, |int|<=2^53-1, UTF-8, json/orjson agreement), validity against the exported JSON_SCHEMA under fastjsonschema and jsonschema, and - after a real serialize/parse cycle through a seeded transcoder - reload to data equal (==, hash) to what the producer holds and, on a fresh node of the producing version under another hash seed, to identical strict fingerprints of the data and of its to_code(); producer histories (the in-memory round trip of docs/usage.md on the same value before the document is made) and long-lived consumers (the document of a normalized value must load back equal on the node that wrote it, after it handled other documents) are part of the seeded runs. The constant space is covered by the workload (constant zoo, hand-grafted nested constants, surrogate strings in every string position), not by the simulator; sampling, not proof.",
        "note": "Borderline applicability (DESIGN.md section 2): the core is an input universal; what the simulator owns is the wire, the JSON implementation on each side and the hash seed of the receiving process. Trusted: json, orjson, fastjsonschema, jsonschema; strict fingerprints. Integers beyond the interpreter's int<->str digit limit are outside the explored space.",
    },
    "C08": {
        "engine": "A-history-machine",
        "category": "exploration",
        "design_ref": "DESIGN.md sections 4.3 (F6, F7), 4.5",
        "technique": "deterministic simulation: seeded construction routes (decode, normalize, code trip, JSON/pickle/marshal reload, recompile, leaf-by-leaf clone = identity loss; confusable twin programs) feeding a pool whose every pair and triple is checked against the value contract and a strict to_code() fingerprint partition; complete confusable-constant table cross-checked against CPython's _PyCode_ConstantKey",
        "text": "Seeded search over routes by which equal (or confusably different) CodeData/Constant values come to exist in one process - where object identity of constants, the hidden state the hash/eq contract depends on, differs - on real CPython 3.7-3.10 under seeded hash seeds; every pair/triple in the pool is checked for hashability, equivalence-relation laws, equal=>equal-hash and set/dict behaviour, == versus the strict fingerprint of to_code(), and immutability; create-use-drop histories (values dropped before the next is built, compared with long-lived clones) expose identity-keyed caches; hand-edited and artefact-variant values must be unequal to their originals; a variant of the first program (equal under CPython's code ==) is decoded while its original is alive and again after the original was dropped (the same code object decoded twice must give equal values); a stack-pressure sweep evaluates hash/==/set membership with r interpreter frames left for every r around exhaustion (each must report the exhaustion or give the shallow answer); a second stage reloads values pickled by the batch workers in fresh processes under another hash seed (restart with only durable state surviving). Sampling of routes and programs; the finite confusables table (incl. hash-colliding constants) is enumerated completely.",
        "note": "Trusted: strict fingerprints (sim/fp.py) as the reference partition, cross-checked on every constant pair against ctypes _PyCode_ConstantKey with NaNs interned (a disagreement is a harness error).",
    },
    "C11": {
        "engine": "C-header-fault-store",
        "category": "fault_enumeration",
        "design_ref": "DESIGN.md section 6",
        "technique": "fault injection on state at rest with a detect-or-preserve oracle: every single-bit flip of co_flags, every small delta and swap of the argument counts (exhaustive per base object), the sign bit, deltas on co_nlocals/co_stacksize/co_firstlineno, seeded multi-bit masks and combinations, applied to stored code objects of seeded programs on CPython 3.7-3.10; flag words alone enumerated (all 2^18 known subsets on 3.9/3.10 in thorough) cold and warm; interrupted-history pass (KeyboardInterrupt at every line of the flag/argument conversion code, then re-judge unaltered objects)",
        "text": "Enumerates the header-fault space per base code object (31 single-bit flag flips, 15 count deltas, 3 swaps - complete - plus seeded masks/combos) over seeded families of base objects on four interpreters, and the flag-word space (complete over known-flag subsets on 3.9/3.10 in the thorough tier; every subset with <=3 flags set or clear plus seeded samples on 3.7/3.8 where the IntFlag cache makes conversions quadratic). Oracle is the property's own: from_code raises or to_code() reproduces every header field exactly, recursively through nested code; alterations also cover parameter names, header fields of one nested code object, the sign bit and co_nlocals/co_stacksize/co_firstlineno; every fifth batch runs python -O; an interrupted-history pass aborts an encode/decode at every line of the flag/argument conversion and re-judges; data handed out before the alterations is encoded again after them and after the interruptions (a refusal may not change what earlier data encodes to); an unsupported-feature probe edits data to use positional-only parameters (must raise on 3.7). The fault space per object is finite and enumerated; the base-object space is sampled.",
        "note": "Trusted: CPython's code constructor (what it refuses to build cannot reach the library and is counted separately); header comparison by the harness. Interpreters run without -O.",
    },
    "C12": {
        "engine": "A-history-machine",
        "category": "exploration",
        "design_ref": "DESIGN.md section 4 (4.1-4.4, 4.7)",
        "technique": "deterministic simulation: seeded operation/fault histories on a pool of live objects with a shadow model; seeded line-level pre-emption of 2-3 real caller threads (baton passing under sys.settrace); abort injection at a seeded line and abort sweeps over every line of small calls; hostile-caller scribbling and aliasing; first-use faults against a virgin copy of the library; pristine-library reference; per-run ambient interpreter settings with an ambient-state invariant",
        "text": "Seeded search over histories of API calls on shared live objects in real CPython 3.7-3.10 processes, with aliasing, scribbling on returned documents, aborts at arbitrary lines and line-level pre-emption of concurrent callers; after every step a shadow model checks that argument snapshots never change, the n-th result equals the first, results share no mutable container with arguments or other documents, (sampled) the result equals what a pristine second copy of the library - fresh module-level state, no history - returns for an equal argument, a first use that is aborted or run by two callers at once leaves a virgin copy of the library usable, and interpreter-global settings (digit limit, recursion limit, gc, cwd, environ, trace hooks, stdio, warnings filters, signal handler) are the same before and after every call. Sampling, not proof: the right level for a purity claim over all call sequences of a library with one process-global cache and caller-owned mutable JSON.",
        "note": "Trusted: the harness's structural fingerprints (sim/fp.py), CPython's immutability of code objects and str, sys.settrace line events as pre-emption points (C-level atomicity not subdivided). Interpreters run without -O.",
    },
}


def main():
    checks = []
    for pid in sorted(CHECKS):
        c = CHECKS[pid]
        checks.append({
            "property_id": pid,
            "quick_cmd": "./check %s --tier quick" % pid,
            "thorough_cmd": "./check %s --tier thorough" % pid,
            "evidence_file": "/verif/evidence/%s.json" % pid,
            "replay_cmd_template": "./check --replay {path}",
            "engine": c["engine"],
            "level_claimed": {"category": c["category"], "text": c["text"], "design_ref": c["design_ref"]},
            "level_note": c["note"],
            "technique": c["technique"],
        })
    na = [{"property_id": k, "reason": "not applicable to deterministic simulation with fault injection: " + v} for k, v in sorted(NA.items())]
    na += [{"property_id": k, "reason": v} for k, v in sorted(PENDING.items()) if k not in CHECKS]
    engines = [
        {"name": "A-history-machine", "path": "sim/world.py, sim/engine_a.py, sim/c06.py, sim/c08.py, sim/sched.py, sim/hub_a.py", "serves_properties": ["C06", "C08", "C12"],
         "kind_free_text": "in-process history machine on CPython 3.7-3.10: seeded op/fault sequences over a pool of live objects, shadow model, line-level pre-emption and abort injection"},
        {"name": "B-exchange-simulation", "path": "sim/hub_b.py, sim/node.py", "serves_properties": ["C07", "C15", "C16"],
         "kind_free_text": "hub-owned transport between real interpreter processes (3.7-3.13) with duplication, reordering, transcoding, restart; CLI node"},
        {"name": "C-header-fault-store", "path": "sim/engine_c.py, sim/hub_c.py", "serves_properties": ["C11"],
         "kind_free_text": "fault enumeration over stored code-object headers (flag bits, argument counts) with a detect-or-preserve oracle"},
    ]
    m = {
        "version": 1,
        "setup_cmd": "./check --setup",
        "hooks": {
            "guard": "CODE_DATA_VERIF",
            "enable": "no hooks exist: sys.settrace, real interpreters, pipes and code.replace give every seam; checks import code_data from a scratch copy of /repo's working tree",
            "baseline_off_cmd": "cd /repo && /venv/bin/python -m pytest -ra -q -p no:cacheprovider --timeout=900 --continue-on-collection-errors",
            "source_commits": [],
            "add_only": True,
        },
        "engines": engines,
        "checks": checks,
        "not_applicable": na,
        "notes": "Technique family: deterministic simulation with fault injection. Properties that are universally quantified statements about one input value of a pure function are listed under not_applicable (DESIGN.md section 2). Genuine defects found and repaired are in known_findings.json (status=fixed).",
    }
    with open(os.path.join(VERIF, "MANIFEST.json"), "w") as f:
        json.dump(m, f, indent=1)
    print("wrote MANIFEST.json: %d checks, %d not_applicable" % (len(checks), len(na)))


if __name__ == "__main__":
    main()
