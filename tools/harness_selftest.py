#!/usr/bin/env python3
"""Self-tests of the harness's own eyes and hands (run on 3.7-3.10: `tools/harness_selftest.sh`).

 1. the validity gate (`bytecode.same_program`) accepts a code object against itself and REJECTS single semantic
    edits: a changed constant, a retargeted jump, a shifted line, a renamed name, a changed flag that matters;
 2. every perturbation kind yields objects the gate accepts and that differ byte-wise from the original;
 3. fingerprints: type-exact (1 / True / 1.0, 0.0 / -0.0, str / bytes), NaNs identified, frozenset order ignored;
 4. the pre-empter is deterministic (same seed -> same switch list) and replays a recorded schedule literally;
 5. abort injection fires at exactly the k-th line and leaves the trace function uninstalled.
"""
import os
import sys

HERE = os.path.dirname(os.path.abspath(__file__))
sys.path.insert(0, os.path.dirname(HERE))
os.environ.setdefault("VERIF_TREE", os.environ.get("VERIF_TREE", "/repo"))

from sim import boot  # noqa: E402

boot.setup(os.environ["VERIF_TREE"])
boot.preimport(True)

from sim import bytecode, fp, prng, sched  # noqa: E402
from sim.world import replace_code  # noqa: E402

SRC = '''
def f(a, b=2, *c, d=4, **e):
    "doc"
    x = a + b
    if x > 3:
        for i in range(x):
            y = (i, "s", 1.5, None, len(str(abs(i))))
            if i in {1, 2, 3}:
                continue
        return y
    else:
        z = lambda q: q + x
    return z
'''
mod = compile(SRC, "<selftest>", "exec")
f = [k for k in mod.co_consts if hasattr(k, "co_code")][0]
fails = []


def check(name, cond):
    print("%-70s %s" % (name, "ok" if cond else "FAIL"))
    if not cond:
        fails.append(name)


# 1. gate
check("gate accepts identity", bytecode.same_program(f, f) and bytecode.same_program(mod, mod))
consts = list(f.co_consts)
i15 = consts.index(3)
consts[i15] = 4
check("gate rejects a changed constant", not bytecode.same_program(f, replace_code(f, co_consts=tuple(consts))))
check("gate rejects a renamed global", not bytecode.same_program(f, replace_code(f, co_names=tuple("zz" + n for n in f.co_names))))
check("gate rejects a different first line", not bytecode.same_program(f, replace_code(f, co_firstlineno=f.co_firstlineno + 1)))
check("gate rejects a different stack size", not bytecode.same_program(f, replace_code(f, co_stacksize=f.co_stacksize + 1)))
check("gate rejects GENERATOR flag", not bytecode.same_program(f, replace_code(f, co_flags=f.co_flags | 0x20)))
check("gate accepts NESTED flag flip", bytecode.same_program(f, replace_code(f, co_flags=f.co_flags ^ 0x10)))
ins = bytecode.parse(f.co_code)
jumps = [x for x in ins if x[1] in bytecode.HASJABS or x[1] in bytecode.HASJREL]
x = jumps[0]
x[2] = x[2] + (1 if bytecode.V310 else 2)
try:
    bad = replace_code(f, co_code=bytecode.emit(ins))
    check("gate rejects a retargeted jump", not bytecode.same_program(f, bad))
except Exception as e:
    check("gate rejects a retargeted jump (construction failed: %s)" % e, True)
if bytecode.V310:
    lt = bytearray(f.co_linetable)
    lt[1] = (lt[1] + 1) & 0x7F
    check("gate rejects a shifted line table", not bytecode.same_program(f, replace_code(f, co_linetable=bytes(lt))))
else:
    ln = bytearray(f.co_lnotab)
    ln[1] = (ln[1] + 1) & 0x7F
    check("gate rejects a shifted line table", not bytecode.same_program(f, replace_code(f, co_lnotab=bytes(ln))))

# 2. perturbations
rng = prng.PRNG(7)
for kind in bytecode.KINDS:
    okc = 0
    changed = 0
    applied = 0
    for t in range(30):
        base = f if kind != "cellvars" else [k for k in compile("def g(a, b):\n    c = 1\n    return lambda: (a, b, c)\n", "<s>", "exec").co_consts if hasattr(k, "co_code")][0]
        new = bytecode.perturb_once(base, kind, rng, {})
        if new is None:
            continue
        applied += 1
        okc += bytecode.same_program(base, new)
        changed += fp.code_fp(new) != fp.code_fp(base)
    # (a shuffle may be the identity permutation, so not every application changes bytes)
    check("perturbation %-12s: %2d applied, all gate-accepted, %2d byte-different" % (kind, applied, changed), applied > 0 and okc == applied and changed > 0)

# 3. fingerprints
check("fingerprints distinguish 1 / True / 1.0", len({fp.const_fp(1), fp.const_fp(True), fp.const_fp(1.0)}) == 3)
check("fingerprints distinguish 0.0 / -0.0", fp.const_fp(0.0) != fp.const_fp(-0.0))
check("fingerprints distinguish 'a' / b'a'", fp.const_fp("a") != fp.const_fp(b"a"))
check("fingerprints identify NaNs", fp.const_fp(float("nan")) == fp.const_fp(-float("nan")))
check("fingerprints ignore frozenset order", fp.const_fp(frozenset([3, 11, 19, 27, 35])) == fp.const_fp(frozenset([35, 27, 19, 11, 3])))
check("doc fingerprints: exact keeps list order, canonical sorts frozenset listings",
      fp.doc_fp({"frozenset": [2, 1]}) != fp.doc_fp({"frozenset": [1, 2]}) and fp.doc_fp({"frozenset": [2, 1]}, True) == fp.doc_fp({"frozenset": [1, 2]}, True))
check("doc fingerprints are type-exact (1 vs True vs 1.0)", len({fp.doc_fp([1]), fp.doc_fp([True]), fp.doc_fp([1.0])}) == 3)

# 4. pre-empter
import code_data  # noqa: E402

data = code_data.CodeData.from_code(mod)


def run_pre(seed, schedule=None):
    p = sched.Preempter([lambda: data.to_json_data(), lambda: data.to_code(), lambda: data.normalize()], rng=prng.PRNG(seed), p=0.05, schedule=schedule, first=1)
    res = p.run()
    return p.switches, p.step, [r[0] for r in res]


s1, n1, r1 = run_pre(11)
s2, n2, r2 = run_pre(11)
s3, n3, r3 = run_pre(12)
check("pre-empter: same seed -> same schedule (%d switches over %d line steps)" % (len(s1), n1), s1 == s2 and n1 == n2 and len(s1) > 3)
check("pre-empter: another seed -> another schedule", s3 != s1)
s4, n4, r4 = run_pre(999, schedule=s1)
check("pre-empter: a recorded schedule replays literally", s4 == s1 and n4 == n1)
check("pre-empter: all callers completed", r1 == ["ok", "ok", "ok"])

# 5. abort injection
n, out = sched.count_lines(lambda: data.to_json_data())
hits = []
for k in (1, n // 2, n):
    fired, where, o = sched.run_with_abort(lambda: data.to_json_data(), k, "KeyboardInterrupt")
    hits.append(fired and o[0] == "raise" and o[1] == "KeyboardInterrupt")
fired, where, o = sched.run_with_abort(lambda: data.to_json_data(), n + 5, "KeyboardInterrupt")
check("abort fires at line 1, n/2 and n (n=%d) and not beyond n" % n, all(hits) and not fired and o[0] == "ok")
check("trace function uninstalled after abort", sys.gettrace() is None)

print("FAILED: %s" % fails if fails else "all harness self-tests passed on %d.%d" % sys.version_info[:2])
sys.exit(1 if fails else 0)
