#!/bin/sh
# Runs tools/harness_selftest.py on CPython 3.7, 3.8, 3.9, 3.10 against a scratch copy of /repo's working tree.
cd "$(dirname "$0")/.."
tmp=$(mktemp -d /tmp/verif-selftest-XXXXXX)
cp -r ${VERIF_REPO:-/repo}/code_data "$tmp/code_data"
rc=0
for v in 3.7.16 3.8.18 3.9.18 3.10.13; do
  VERIF_TREE="$tmp" PYTHONHASHSEED=0 /root/.pyenv/versions/$v/bin/python tools/harness_selftest.py > "$tmp/out.$v" 2>&1 || { rc=1; grep FAIL "$tmp/out.$v"; }
  tail -1 "$tmp/out.$v"
done
rm -rf "$tmp"
exit $rc
