#!/usr/bin/env python3
"""Seeded-bug bookkeeping.

  seeded.py confirm <src-dir> <PROP> <i> [more i...]   confirm bug<i>.diff from a sub-agent in a scratch worktree
                                                      (applies, 30 baseline tests pass, demo passes clean / fails
                                                      with the change) and store it as /verif/seeded/<PROP>-<i>/
  seeded.py run <id> [check ids...]                    apply the patch to /repo, run the quick checks, undo, record
  seeded.py table                                      print the detection table
"""
import json
import os
import re
import subprocess
import sys
import time

VERIF = os.path.dirname(os.path.dirname(os.path.abspath(__file__)))
SEEDED = os.path.join(VERIF, "seeded")
PY = {v: "/root/.pyenv/versions/%s/bin/python" % full for v, full in
      (("3.7", "3.7.16"), ("3.8", "3.8.18"), ("3.9", "3.9.18"), ("3.10", "3.10.13"))}
TESTS = "/venv/bin/python -m pytest -q -p no:cacheprovider code_data/_line_mapping_test.py code_data/_flags_data_test.py"


def sh(cmd, cwd=None, env=None, timeout=900):
    p = subprocess.run(cmd, shell=True, cwd=cwd, env=env, stdout=subprocess.PIPE, stderr=subprocess.STDOUT, timeout=timeout)
    return p.returncode, p.stdout.decode("utf-8", "replace")


def run_demo(demo, wt):
    """-> {interp: exit code}"""
    out = {}
    env = dict(os.environ, PYTHONPATH="%s:/tmp/te_shim" % wt, CODE_DATA_PATH="%s:/tmp/te_shim" % wt, PYTHONDONTWRITEBYTECODE="1")
    head = open(demo).read(3000)
    if "CODE_DATA_PATH" in head or "subprocess" in head and "spawn" in head:
        if "producer" not in head:
            rc, o = sh("/venv/bin/python %s" % demo, cwd="/tmp", env=env, timeout=600)
            out["driver"] = rc
        if "as producer" in head or "producer" in head:
            for v, py in PY.items():
                rc, o = sh("%s %s" % (py, demo), cwd="/tmp", env=env, timeout=900)
                out["driver-" + v] = rc
        return out
    for v, py in PY.items():
        rc, o = sh("%s %s" % (py, demo), cwd="/tmp", env=env, timeout=600)
        out[v] = rc
    return out


def tests_pass(wt):
    rc, o = sh(TESTS, cwd=wt)
    m = re.search(r"(\d+) passed", o)
    return int(m.group(1)) if m else 0


def confirm(src, prop, i):
    wt = "/tmp/wt/confirm"
    sh("git -C /repo worktree remove --force %s" % wt)
    rc, o = sh("git -C /repo worktree add -q --detach %s HEAD" % wt)
    assert rc == 0, o
    try:
        diff = os.path.join(src, "bug%s.diff" % i)
        demo = os.path.join(src, "bug%s_demo.py" % i)
        clean = run_demo(demo, wt)
        rc, o = sh("git apply %s" % diff, cwd=wt)
        if rc != 0:
            print("bug%s: patch does not apply: %s" % (i, o))
            return False
        npass = tests_pass(wt)
        broken = run_demo(demo, wt)
        ok = all(v == 0 for v in clean.values()) and any(v != 0 for v in broken.values()) and npass >= 30
        print("%s bug%s: clean=%s with-change=%s tests_passed=%d -> %s" % (prop, i, clean, broken, npass, "CONFIRMED" if ok else "REJECTED"))
        if not ok:
            return False
        sid = "%s-%d" % (prop, int(i) + int(os.environ.get("SEEDED_OFFSET", "0")))
        d = os.path.join(SEEDED, sid)
        os.makedirs(d, exist_ok=True)
        sh("cp %s %s/patch.diff && cp %s %s/demo.py" % (diff, d, demo, d))
        note = open(os.path.join(src, "bug%s.md" % i)).read() if os.path.exists(os.path.join(src, "bug%s.md" % i)) else ""
        meta = {"id": sid, "breaks_property": prop, "origin": "independent sub-agent given only the property text and its own worktree",
                "needs_to_manifest": note.strip(), "confirmed": {"demo_exit_clean_tree": clean, "demo_exit_with_change": broken, "baseline_tests_passed_with_change": npass,
                                                                 "how": "scratch worktree of /repo HEAD; demo run per interpreter with PYTHONPATH=<worktree>:/tmp/te_shim; %s" % TESTS},
                "checks_run": {}}
        with open(os.path.join(d, "meta.json"), "w") as f:
            json.dump(meta, f, indent=1)
        return True
    finally:
        sh("git -C /repo worktree remove --force %s" % wt)


def run(bid, checks):
    d = os.path.join(SEEDED, bid)
    meta = json.load(open(os.path.join(d, "meta.json")))
    checks = checks or ([meta["breaks_property"]] if meta["breaks_property"] != "none" else ["C06", "C07", "C08", "C11", "C12", "C15", "C16"])
    # SEEDED_WORKTREE=1: apply the patch in a scratch worktree of /repo HEAD and point the checks at it with
    # VERIF_REPO (same code path: the checks copy <repo>/code_data to their scratch tree) - used while a long
    # background run reads /repo itself.  Default: apply to /repo and undo straight afterwards.
    use_wt = bool(os.environ.get("SEEDED_WORKTREE"))
    repo = "/repo"
    if use_wt:
        repo = "/tmp/wt/apply-%s" % bid
        sh("git -C /repo worktree remove --force %s" % repo)
        rc, o = sh("git -C /repo worktree add -q --detach %s HEAD" % repo)
        assert rc == 0, o
    rc, o = sh("git -C %s status --porcelain" % repo)
    assert o.strip() == "", "%s not clean: %s" % (repo, o)
    rc, o = sh("git -C %s apply %s/patch.diff" % (repo, d))
    assert rc == 0, o
    try:
        for c in checks:
            t0 = time.time()
            env = dict(os.environ)
            if use_wt:
                env["VERIF_REPO"] = repo
            rc, o = sh("./check %s --tier quick" % c, cwd=VERIF, env=env, timeout=1800)
            fps = re.findall(r"fingerprint=(\S+)", o)
            meta["checks_run"][c] = {"exit": rc, "violation_fingerprints": fps[:8], "wall_s": round(time.time() - t0, 1),
                                     "cmd": "git -C /repo apply seeded/%s/patch.diff && ./check %s --tier quick ; git -C /repo checkout -- ." % (bid, c)}
            print("%s under %s: exit=%d %s" % (bid, c, rc, fps[:4]))
    finally:
        if use_wt:
            sh("git -C /repo worktree remove --force %s" % repo)
        else:
            sh("git -C /repo checkout -- .")
        sh("git -C %s checkout -q -- evidence" % VERIF)
    with open(os.path.join(d, "meta.json"), "w") as f:
        json.dump(meta, f, indent=1)


def table():
    for bid in sorted(os.listdir(SEEDED)):
        mp = os.path.join(SEEDED, bid, "meta.json")
        if not os.path.exists(mp):
            continue
        m = json.load(open(mp))
        res = ", ".join("%s:%s" % (c, ("ALARM" if m["breaks_property"] == "none" else "DETECTED") if r["exit"] == 1 else ("clean" if r["exit"] == 0 else "harness-error")) for c, r in sorted(m["checks_run"].items()))
        print("%-8s %-4s %s" % (bid, m["breaks_property"], res or "not run"))


if __name__ == "__main__":
    cmd = sys.argv[1]
    if cmd == "confirm":
        for i in sys.argv[4:]:
            confirm(sys.argv[2], sys.argv[3], i)
    elif cmd == "run":
        run(sys.argv[2], sys.argv[3:])
    elif cmd == "table":
        table()
